"""Path / dominance queries on the explored inlined supergraph (analysis A)."""
from collections import deque


class Graph:
    def __init__(self, edges, nodes=None):
        self.succ = {}
        self.pred = {}
        self.kinds = {}
        for e in edges:
            a, b, k = e
            self.succ.setdefault(a, set()).add(b)
            self.pred.setdefault(b, set()).add(a)
            self.succ.setdefault(b, set())
            self.pred.setdefault(a, set())
            self.kinds[(a, b)] = k
        if nodes:
            for n in nodes:
                self.succ.setdefault(n, set())
                self.pred.setdefault(n, set())

    def reachable(self, srcs, avoid_nodes=(), avoid_edges=(), stop_at=()):
        """set of nodes reachable from srcs without entering avoid_nodes / using avoid_edges.
        Nodes in stop_at are included but not expanded."""
        avoid_nodes = set(avoid_nodes)
        avoid_edges = set(avoid_edges)
        stop_at = set(stop_at)
        seen = set()
        dq = deque()
        for s in srcs:
            if s in avoid_nodes:
                continue
            seen.add(s)
            dq.append(s)
        while dq:
            x = dq.popleft()
            if x in stop_at:
                continue
            for y in self.succ.get(x, ()):
                if y in seen or y in avoid_nodes or (x, y) in avoid_edges:
                    continue
                seen.add(y)
                dq.append(y)
        return seen

    def first_matching_edges(self, srcs, match):
        """edges (x, y) with match(None, x, y) that leave a node reachable from srcs without using a matching edge"""
        seen = set(srcs)
        dq = deque(srcs)
        out = set()
        while dq:
            x = dq.popleft()
            for y in self.succ.get(x, ()):
                if match(None, x, y):
                    out.add((x, y))
                    continue
                if y not in seen:
                    seen.add(y)
                    dq.append(y)
        return out

    def path(self, src, dst_set, avoid_nodes=(), avoid_edges=()):
        """a shortest path (list of nodes) from src to any node of dst_set, or None"""
        avoid_nodes = set(avoid_nodes)
        avoid_edges = set(avoid_edges)
        dst_set = set(dst_set)
        prev = {src: None}
        dq = deque([src])
        while dq:
            x = dq.popleft()
            if x in dst_set and x != src or (x in dst_set and prev[x] is None and x == src and False):
                out = []
                while x is not None:
                    out.append(x)
                    x = prev[x]
                return out[::-1]
            for y in self.succ.get(x, ()):
                if y in prev or y in avoid_nodes or (x, y) in avoid_edges:
                    continue
                prev[y] = x
                dq.append(y)
        return None

    def dominated_by_node(self, entry, target, gate):
        """every path entry -> target passes through node gate"""
        if target == gate:
            return True
        return target not in self.reachable([entry], avoid_nodes=[gate])

    def dominated_by_edges(self, entry, target, edges):
        """every path entry -> target uses at least one of the given edges"""
        return target not in self.reachable([entry], avoid_edges=edges)

    def on_cycle_avoiding(self, node, avoid_nodes=(), avoid_edges=()):
        """is there a cycle through node that avoids the given nodes/edges?"""
        nxt = [y for y in self.succ.get(node, ()) if y not in set(avoid_nodes) and (node, y) not in set(avoid_edges)]
        r = self.reachable(nxt, avoid_nodes=avoid_nodes, avoid_edges=avoid_edges)
        return node in r


class ArgGraph(Graph):
    """Same queries, answered on the abstract reachability graph of the exploration (one node per program
    node AND state that executed it) and projected back to program nodes. `succ`/`pred`/`kinds` stay the
    program-level union graph. A path exists here only if one explored state sequence follows it, so a
    `match` on the result of an inlined helper does not connect the helper's Err exit with the caller's Ok arm."""

    def __init__(self, edges, nodes, arg_proj, arg_edges):
        Graph.__init__(self, edges, nodes)
        self.proj = arg_proj
        self.asucc = [[] for _ in arg_proj]
        for (a, b) in arg_edges:
            self.asucc[a].append(b)
        self.inst = {}
        for i, n in enumerate(arg_proj):
            self.inst.setdefault(n, []).append(i)
        self.edge_inst = {}
        for (a, b) in arg_edges:
            self.edge_inst.setdefault((arg_proj[a], arg_proj[b]), []).append(b)

    def _search(self, srcs, avoid_nodes, avoid_edges, stop_at, src_edges=()):
        proj = self.proj
        avoid_nodes = set(avoid_nodes)
        avoid_edges = set(avoid_edges)
        stop_at = set(stop_at)
        seen = set()
        dq = deque()
        for s in srcs:
            if s in avoid_nodes:
                continue
            for i in self.inst.get(s, ()):
                if i not in seen:
                    seen.add(i)
                    dq.append(i)
        for e in src_edges:
            if e in avoid_edges or e[1] in avoid_nodes:
                continue
            for i in self.edge_inst.get(e, ()):
                if i not in seen:
                    seen.add(i)
                    dq.append(i)
        prev = {}
        while dq:
            x = dq.popleft()
            px = proj[x]
            if px in stop_at:
                continue
            for y in self.asucc[x]:
                if y in seen:
                    continue
                py = proj[y]
                if py in avoid_nodes or (px, py) in avoid_edges:
                    continue
                seen.add(y)
                prev[y] = x
                dq.append(y)
        return seen, prev

    def first_matching_edges(self, srcs, match):
        """program edges (px, py) taken by an explored state with match(state's ARG node, px, py), where that state has not
        taken a matching edge since it left srcs"""
        proj = self.proj
        seen = set()
        dq = deque()
        for s_ in srcs:
            for i in self.inst.get(s_, ()):
                if i not in seen:
                    seen.add(i)
                    dq.append(i)
        out = set()
        while dq:
            x = dq.popleft()
            px = proj[x]
            for y in self.asucc[x]:
                py = proj[y]
                if match(x, px, py):
                    out.add((px, py))
                    continue
                if y not in seen:
                    seen.add(y)
                    dq.append(y)
        return out

    def reachable(self, srcs, avoid_nodes=(), avoid_edges=(), stop_at=(), src_edges=()):
        seen, _ = self._search(srcs, avoid_nodes, avoid_edges, stop_at, src_edges)
        proj = self.proj
        return set(proj[i] for i in seen)

    def path(self, src, dst_set, avoid_nodes=(), avoid_edges=()):
        dst_set = set(dst_set)
        seen, prev = self._search([src], avoid_nodes, avoid_edges, ())
        proj = self.proj
        best = None
        for i in seen:
            if proj[i] in dst_set and proj[i] != src:
                out = [i]
                while out[-1] in prev:
                    out.append(prev[out[-1]])
                if best is None or len(out) < len(best):
                    best = out
        if best is None:
            return None
        return [proj[i] for i in best[::-1]]

    def on_cycle_avoiding(self, node, avoid_nodes=(), avoid_edges=()):
        av_n = set(avoid_nodes)
        av_e = set(avoid_edges)
        proj = self.proj
        for i in self.inst.get(node, ()):
            starts = [y for y in self.asucc[i] if proj[y] not in av_n and (node, proj[y]) not in av_e]
            seen = set(starts)
            dq = deque(starts)
            while dq:
                x = dq.popleft()
                if proj[x] == node:
                    return True
                for y in self.asucc[x]:
                    if y in seen or proj[y] in av_n or (proj[x], proj[y]) in av_e:
                        continue
                    seen.add(y)
                    dq.append(y)
        return False


def node_str(prog, n):
    fid, bb = n
    last = fid[-1] if fid else None
    fn = last[1] if isinstance(last, tuple) and len(last) > 1 else "?"
    return "%s:bb%s" % (str(fn).replace("tftpd::", ""), bb)
