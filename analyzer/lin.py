"""Linear integer arithmetic for the numeric domain (analysis D).

A linear expression is (const, ((sym, coef), ...)) with integer coefficients, syms sorted.
A constraint is a linear expression e meaning  e <= 0.
Entailment is decided by Fourier-Motzkin elimination over the rationals with integer
tightening of single-variable bounds, restricted to the cone of influence of the query.
This is the domain's own operation; no external solver is used.
"""

ZERO = (0, ())


def const(c):
    return (int(c), ())


def var(s, k=1):
    return (0, ((s, k),))


def is_const(e):
    return not e[1]


def add(a, b):
    d = dict(a[1])
    for s, k in b[1]:
        v = d.get(s, 0) + k
        if v:
            d[s] = v
        else:
            d.pop(s, None)
    return (a[0] + b[0], tuple(sorted(d.items())))


def scale(a, k):
    if k == 0:
        return ZERO
    return (a[0] * k, tuple((s, c * k) for s, c in a[1]))


def sub(a, b):
    return add(a, scale(b, -1))


def syms(e):
    return [s for s, _ in e[1]]


NAMER = [None]


def show(e):
    parts = []
    for s, k in e[1]:
        n = s if isinstance(s, str) else (NAMER[0](s) if NAMER[0] else repr(s))
        if k == 1:
            parts.append("+" + n)
        elif k == -1:
            parts.append("-" + n)
        else:
            parts.append("%+d*%s" % (k, n))
    if e[0] or not parts:
        parts.append("%+d" % e[0])
    return " ".join(parts)


# ---------------------------------------------------------------- constraints
def le(a, b):
    """a <= b  as constraint"""
    return sub(a, b)


def lt(a, b):
    """a < b  (integers)  <=>  a - b + 1 <= 0"""
    return add(sub(a, b), const(1))


def negate(c):
    """not (c <= 0)  <=>  c >= 1  <=>  -c + 1 <= 0"""
    return add(scale(c, -1), const(1))


class Infeasible(Exception):
    pass


def _gcd(a, b):
    while b:
        a, b = b, a % b
    return a


def _norm(c0, d):
    """normalise integer constraint sum(d)+c0 <= 0: divide by gcd of coefficients, tighten constant"""
    g = 0
    for k in d.values():
        g = _gcd(g, abs(k))
    if g > 1:
        d = {s: k // g for s, k in d.items()}
        # sum + c0/g <= 0 with integer sum  =>  sum <= floor(-c0/g)  =>  sum + ceil(c0/g) <= 0
        c0 = -((-c0) // g)
    return c0, d


def _fm_infeasible(cons, budget=20000):
    """True if the conjunction of cons (each e <= 0, integer coefficients, integer unknowns) has no
    solution. Fourier-Motzkin with gcd tightening; constraints with the same left-hand side are
    subsumed by the tightest one. Sound: True => infeasible over Z."""
    best = {}
    for c in cons:
        if not c[1]:
            if c[0] > 0:
                return True
            continue
        c0, d = _norm(c[0], dict(c[1]))
        key = tuple(sorted(d.items()))
        old = best.get(key)
        if old is None or c0 > old:
            best[key] = c0
    work = [(c0, dict(key)) for key, c0 in best.items()]
    steps = 0
    while True:
        occ = {}
        for c0, d in work:
            for s, k in d.items():
                p = occ.get(s)
                if p is None:
                    p = occ[s] = [0, 0]
                if k > 0:
                    p[0] += 1
                else:
                    p[1] += 1
        if not occ:
            return False
        onesided = set(s for s, (p, n) in occ.items() if p == 0 or n == 0)
        if onesided:
            work = [(c0, d) for c0, d in work if not (onesided & d.keys())]
            if not work:
                return False
            continue
        v = min(occ, key=lambda s: (occ[s][0] * occ[s][1], s))
        pos = []
        neg = []
        best = {}
        for c0, d in work:
            k = d.get(v, 0)
            if k > 0:
                pos.append((c0, d))
            elif k < 0:
                neg.append((c0, d))
            else:
                key = tuple(sorted(d.items()))
                old = best.get(key)
                if old is None or c0 > old:
                    best[key] = c0
        for pc, pd in pos:
            a = pd[v]
            for nc, nd in neg:
                steps += 1
                if steps > budget:
                    return False  # give up: "not proven"
                b = -nd[v]
                d = {}
                for s, k in pd.items():
                    if s != v:
                        d[s] = b * k
                for s, k in nd.items():
                    if s != v:
                        x = d.get(s, 0) + a * k
                        if x:
                            d[s] = x
                        else:
                            d.pop(s, None)
                c0 = b * pc + a * nc
                if not d:
                    if c0 > 0:
                        return True
                    continue
                c0, d = _norm(c0, d)
                key = tuple(sorted(d.items()))
                old = best.get(key)
                if old is None or c0 > old:
                    best[key] = c0
        work = [(c0, dict(key)) for key, c0 in best.items()]
        if not work:
            return False


def cone(cons, seed_syms, extra=None):
    """constraints transitively sharing symbols with seed_syms"""
    seed = set(seed_syms)
    chosen = []
    remaining = list(cons)
    changed = True
    while changed:
        changed = False
        keep = []
        for c in remaining:
            ss = [s for s, _ in c[1]]
            if any(s in seed for s in ss):
                chosen.append(c)
                for s in ss:
                    if s not in seed:
                        seed.add(s)
                        changed = True
            else:
                keep.append(c)
        remaining = keep
    return chosen, seed


class Ctx:
    """A conjunction: inequalities (e <= 0), disequalities (e != 0) and symbol ranges."""

    __slots__ = ("cons", "neqs", "ranges", "_dead", "_uf", "hyps")

    def __init__(self, ranges):
        self.cons = []
        self.neqs = []
        self.ranges = ranges  # shared dict sym -> (lo, hi)
        self._dead = False
        self._uf = None
        self.hyps = []      # assumed loop-invariant candidates (kept apart from path constraints)

    def copy(self):
        c = Ctx(self.ranges)
        c.cons = list(self.cons)
        c.neqs = list(self.neqs)
        c.hyps = list(self.hyps)
        c._dead = self._dead
        c._uf = None
        return c

    def add(self, c):
        if not c[1]:
            if c[0] > 0:
                self._dead = True
            return
        if c not in self.cons:
            self.cons.append(c)

    def add_eq(self, a, b):
        self.add(le(a, b))
        self.add(le(b, a))

    def add_neq(self, a, b):
        e = sub(a, b)
        if not e[1]:
            if e[0] == 0:
                self._dead = True
            return
        if e not in self.neqs:
            self.neqs.append(e)

    def _range_cons(self, symset):
        out = []
        for s in symset:
            r = self.ranges.get(s)
            if r is not None:
                lo, hi = r
                if lo is not None:
                    out.append(le(const(lo), var(s)))
                if hi is not None:
                    out.append(le(var(s), const(hi)))
        return out

    def add_hyp(self, c):
        if not c[1]:
            if c[0] > 0:
                self._dead = True
            return
        if c not in self.hyps:
            self.hyps.append(c)

    def _system(self, seed_syms, extra):
        base = self.cons + self.hyps + extra
        chosen, ss = cone(base, seed_syms)
        # ranges may connect more; iterate once more including ranges (ranges are unary so no new syms)
        chosen = chosen + self._range_cons(ss)
        neqs = [e for e in self.neqs if all(s in ss for s, _ in e[1])]
        return chosen, neqs

    def infeasible_with(self, extra):
        """is (self and extra) infeasible?"""
        if self._dead:
            return True
        seed = set()
        for c in extra:
            seed.update(s for s, _ in c[1])
        if not seed:
            for c in extra:
                if c[0] > 0:
                    return True
            return False
        sys_, neqs = self._system(seed, list(extra))
        if _fm_infeasible(sys_):
            return True
        # use disequalities: split on those whose both sides are needed (bounded depth)
        neqs = neqs[:12]
        if not neqs:
            return False
        return self._split(sys_, neqs, 0)

    def _split(self, sys_, neqs, i):
        if i >= len(neqs):
            return False
        e = neqs[i]
        # e != 0 : e <= -1 or e >= 1
        a = sys_ + [add(e, const(1))]
        b = sys_ + [add(scale(e, -1), const(1))]
        ia = _fm_infeasible(a)
        ib = _fm_infeasible(b)
        if ia and ib:
            return True
        if ia and not ib:
            return self._split(b, neqs, i + 1)
        if ib and not ia:
            return self._split(a, neqs, i + 1)
        # both feasible on their own: try deeper on both
        return self._split(a, neqs, i + 1) and self._split(b, neqs, i + 1)

    def entails(self, c):
        """does the conjunction entail c <= 0 ?"""
        if not c[1]:
            return c[0] <= 0 or self._dead
        return self.infeasible_with([negate(c)])

    def entails_eq(self, a, b):
        return self.entails(le(a, b)) and self.entails(le(b, a))

    def is_dead(self):
        if self._dead:
            return True
        return False

    def check_dead(self):
        """full feasibility check (expensive): all constraints"""
        if self._dead:
            return True
        ss = set()
        for c in self.cons + self.hyps:
            ss.update(s for s, _ in c[1])
        sys_ = self.cons + self.hyps + self._range_cons(ss)
        if _fm_infeasible(sys_):
            self._dead = True
            return True
        return False

    def tight_bounds(self, e):
        """bounds(e) tightened, for a single symbol, by the constraints that mention only that symbol"""
        lo, hi = self.bounds(e)
        if len(e[1]) != 1:
            return (lo, hi)
        s, k = e[1][0]
        if k not in (1, -1):
            return (lo, hi)
        slo = shi = None
        for c in self.cons + self.hyps:
            if len(c[1]) == 1 and c[1][0][0] == s:
                kk = c[1][0][1]             # c0 + kk*s <= 0
                if kk > 0:
                    b = (-c[0]) // kk
                    shi = b if shi is None else min(shi, b)
                elif kk < 0:
                    # s >= c0 / (-kk), rounded up
                    num, den = c[0], -kk
                    b = -((-num) // den)
                    slo = b if slo is None else max(slo, b)
        if k == 1:
            elo = None if slo is None else e[0] + slo
            ehi = None if shi is None else e[0] + shi
        else:
            elo = None if shi is None else e[0] - shi
            ehi = None if slo is None else e[0] - slo
        if elo is not None:
            lo = elo if lo is None else max(lo, elo)
        if ehi is not None:
            hi = ehi if hi is None else min(hi, ehi)
        return (lo, hi)

    def bounds(self, e):
        """(lo, hi) of expression e under the conjunction using a cheap search: tries to prove
        candidate bounds; returns interval from ranges only (fast path)."""
        lo = hi = e[0]
        for s, k in e[1]:
            r = self.ranges.get(s)
            if r is None:
                return (None, None)
            a, b = r
            if k > 0:
                lo = None if (lo is None or a is None) else lo + k * a
                hi = None if (hi is None or b is None) else hi + k * b
            else:
                lo = None if (lo is None or b is None) else lo + k * b
                hi = None if (hi is None or a is None) else hi + k * a
        return (lo, hi)
