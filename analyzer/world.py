"""Facts extraction from /repo's working tree, caching, and the analysis entries."""
import fcntl
import hashlib
import os
import pickle
import shutil
import subprocess
import sys
import tempfile
import time

from . import lin
from .engine import Engine, I, ISIZE_MAX
from .facts import Program
from .stdmodel import Models

VERIF = os.path.dirname(os.path.dirname(os.path.abspath(__file__)))
REPO = os.environ.get("VERIF_REPO", "/repo")
CACHE = os.path.join(VERIF, ".cache")
DRIVER = os.path.join(VERIF, "driver", "target", "release", "tftp-facts")

SERVER = "tftpd::server::Server"
WINDOW = "tftpd::window::Window"
WORKER = "tftpd::worker::Worker"


def _hash_tree():
    h = hashlib.sha256()
    files = []
    for base in ("Cargo.toml", "Cargo.lock"):
        files.append(os.path.join(REPO, base))
    for root, dirs, fs in os.walk(os.path.join(REPO, "src")):
        dirs.sort()
        for f in sorted(fs):
            files.append(os.path.join(root, f))
    for f in files:
        h.update(f.encode())
        try:
            with open(f, "rb") as fh:
                h.update(fh.read())
        except OSError:
            h.update(b"<missing>")
    try:
        st = os.stat(DRIVER)
        h.update(("%d:%d" % (st.st_size, int(st.st_mtime))).encode())
    except OSError:
        pass
    return h.hexdigest()[:24]


def _hash_analyzer():
    h = hashlib.sha256()
    d = os.path.join(VERIF, "analyzer")
    for f in sorted(os.listdir(d)):
        if f.endswith(".py"):
            with open(os.path.join(d, f), "rb") as fh:
                h.update(fh.read())
    return h.hexdigest()[:16]


def build_driver():
    env = dict(os.environ)
    env["CARGO_NET_OFFLINE"] = "true"
    r = subprocess.run(["cargo", "build", "--release", "--offline"], cwd=os.path.join(VERIF, "driver"), env=env,
                       stdout=subprocess.PIPE, stderr=subprocess.STDOUT, text=True)
    if r.returncode != 0:
        sys.stdout.write(r.stdout)
        raise SystemExit("driver build failed")
    return DRIVER


def extract_facts(out_dir, features=("client",), tag=""):
    """cargo +nightly check of /repo's working tree with the fact extractor as rustc wrapper"""
    if not os.path.exists(DRIVER):
        build_driver()
    sysroot = subprocess.run(["rustc", "+nightly", "--print", "sysroot"], stdout=subprocess.PIPE, text=True,
                             check=True).stdout.strip()
    tgt = tempfile.mkdtemp(prefix="tftp-facts-target-")
    try:
        env = dict(os.environ)
        env.update({
            "LD_LIBRARY_PATH": os.path.join(sysroot, "lib") + ":" + env.get("LD_LIBRARY_PATH", ""),
            "RUSTFLAGS": "-Zmir-opt-level=0 -Awarnings",
            "RUSTC_WORKSPACE_WRAPPER": DRIVER,
            "CARGO_TARGET_DIR": tgt,
            "TFTP_FACTS_OUT": out_dir,
            "TFTP_FACTS_TAG": tag,
            "CARGO_NET_OFFLINE": "true",
        })
        cmd = ["cargo", "+nightly", "check", "--offline", "--lib", "--bins"]
        if features:
            cmd += ["--features", ",".join(features)]
        r = subprocess.run(cmd, cwd=REPO, env=env, stdout=subprocess.PIPE, stderr=subprocess.STDOUT, text=True)
        if r.returncode != 0:
            sys.stdout.write(r.stdout[-4000:])
            raise SystemExit("fact extraction failed: /repo does not build")
    finally:
        shutil.rmtree(tgt, ignore_errors=True)


class World:
    """facts + lazily computed engine runs (memoised in memory and on disk)"""

    def __init__(self, facts_dir, cache_dir):
        self.facts_dir = facts_dir
        self.cache_dir = cache_dir
        self.lib = Program(os.path.join(facts_dir, "tftpd.lib.json"))
        self.bins = {}
        for n in ("tftpd.bin", "tftpc.bin"):
            p = os.path.join(facts_dir, n + ".json")
            if os.path.exists(p):
                self.bins[n] = Program(p)
        self.models = Models()
        self.runs = {}
        self.failed = {}
        self.timings = {}

    # ------------------------------------------------------------ engine runs
    def run(self, name):
        if name in self.failed:
            from .engine import BudgetExceeded
            raise BudgetExceeded(self.failed[name])      # do not explore the same over-budget program once per rule
        if name in self.runs:
            return self.runs[name]
        pk = os.path.join(self.cache_dir, "run-%s-%s.pkl" % (_hash_analyzer(), name.replace("/", "_").replace(":", "_").replace("<", "(").replace(">", ")")))
        if os.path.exists(pk + ".failed") and not os.environ.get("VERIF_NO_CACHE"):
            from .engine import BudgetExceeded
            try:
                self.failed[name] = open(pk + ".failed").read()
            except OSError:
                self.failed[name] = "exploration budget exceeded"
            raise BudgetExceeded(self.failed[name])
        if os.path.exists(pk) and not os.environ.get("VERIF_NO_CACHE"):
            try:
                with open(pk, "rb") as f:
                    eng = pickle.load(f)
                eng.prog = self.lib
                eng.models = self.models
                lin.NAMER[0] = eng.sym_name
                self.runs[name] = eng
                return eng
            except Exception:
                pass
        t0 = time.time()
        from .engine import BudgetExceeded
        try:
            eng = self._compute(name)
        except BudgetExceeded as e:
            self.failed[name] = str(e)
            try:
                with open(pk + ".failed", "w") as f:
                    f.write(str(e))
            except OSError:
                pass
            raise
        self.timings[name] = time.time() - t0
        self.runs[name] = eng
        try:
            prog, models = eng.prog, eng.models
            eng.prog = None
            eng.models = None
            hooks = (eng.call_hooks, eng.post_call_hooks, eng.edge_hooks)
            eng.call_hooks, eng.post_call_hooks, eng.edge_hooks = [], [], []
            rhooks = eng.return_hooks
            eng.return_hooks = []
            tmp = pk + ".tmp%d" % os.getpid()
            with open(tmp, "wb") as f:
                pickle.dump(eng, f, protocol=pickle.HIGHEST_PROTOCOL)
            os.replace(tmp, pk)
        except Exception as e:  # cache is an optimisation only
            sys.stderr.write("note: could not cache run %s: %s\n" % (name, e))
        finally:
            eng.prog, eng.models = prog, models
            try:
                eng.call_hooks, eng.post_call_hooks, eng.edge_hooks = hooks
                eng.return_hooks = rhooks
            except NameError:
                pass
        return eng

    def engine(self, opts=None):
        from . import monitors
        eng = Engine(self.lib, self.models, opts=opts or {})
        eng.deadline = time.time() + float(os.environ.get("VERIF_BUDGET_S", "600"))
        monitors.install(eng, self)
        return eng

    def struct_leaves(self, adt_path, path=(), depth=0):
        """(path, type index, field name) of every leaf of a struct, descending into crate-local helper structs"""
        prog = self.lib
        for i, f in enumerate(prog.adts[adt_path]["variants"][0]["fields"]):
            t = prog.types[f["ty"]]
            p2 = path + (i,)
            if t["k"] == "adt" and t["path"] in prog.adts and prog.transparent_adt(t["path"]):
                # a newtype over an integer is represented like the integer (no extra path element)
                yield (p2, prog.adts[t["path"]]["variants"][0]["fields"][0]["ty"], f["name"])
            elif t["k"] == "adt" and t["path"].startswith("tftpd::") and t["path"] in prog.adts and prog.adts[t["path"]]["kind"] == "struct" and depth < 4:
                for x in self.struct_leaves(t["path"], p2, depth + 1):
                    yield x
            else:
                yield (p2, f["ty"], f["name"])

    def window_layout(self):
        """{role: path inside the Window value}: 'size', 'chunk_size', 'file' are the parameters of the public constructor
        Window::new(size, chunk_size, file) (located by interpreting it); 'elements' is the VecDeque (by type); 'eof' the
        bool the constructor initialises with false. Private fields may be renamed, reordered or grouped."""
        lay = getattr(self, "_window_layout", None)
        if lay is not None:
            return lay
        prog = self.lib
        lay = {}
        if WINDOW not in prog.adts:
            self._window_layout = lay
            return lay
        leaves = list(self.struct_leaves(WINDOW))
        for (pth, ti, nm) in leaves:
            ts = prog.types[ti]["s"]
            if ts.startswith("std::collections::VecDeque<"):
                lay.setdefault("elements", pth)
            elif ts == "std::fs::File":
                lay.setdefault("file", pth)
        new = WINDOW + "::new"
        params = {1: "size", 2: "chunk_size", 3: "file"}
        if new in prog.bodies:
            eng = Engine(prog, self.models)
            fr, finals = eng.run(new, region="fn:" + new)
            for st in finals:
                ret = st.store.get(("L", fr.id, 0), {})
                for k, v in ret.items():
                    if k and k[-1] in ("$len", "$discr", "$layout"):
                        continue
                    src = None
                    if v[0] == "i" and not v[1][1]:
                        for (lp, lti, _) in leaves:
                            if lp == tuple(k) and prog.types[lti]["k"] == "bool" and v[1][0] == 0:
                                lay.setdefault("eof", tuple(k))
                        continue
                    if v[0] == "i" and len(v[1][1]) == 1 and v[1][0] == 0 and v[1][1][0][1] == 1:
                        nm = eng.sym_names[v[1][1][0][0]]
                        if isinstance(nm, tuple) and nm[0] == "init" and nm[1][0] == "L" and nm[1][1] == fr.id and tuple(nm[2]) == ():
                            src = nm[1][2]
                    elif v[0] == "t" and isinstance(v[1], tuple) and v[1] and v[1][0] == "init" and v[1][1][0] == "L" and v[1][1][1] == fr.id and tuple(v[1][2]) == ():
                        src = v[1][1][2]
                    if src in params:
                        lay[params[src]] = tuple(k)
        self._window_layout = lay
        return lay

    def ctor_layout(self, ctor, config_adt):
        """interpret a constructor `fn new(config: &Config) -> Result<Self, _>`: {public config field name: (path inside Self
        that receives it, False)} plus {path: (path, True)} for leaves initialised with integer constants"""
        prog = self.lib
        out = {}
        if ctor not in prog.bodies or config_adt not in prog.adts:
            return out
        cfields = [f["name"] for f in prog.adts[config_adt]["variants"][0]["fields"]]
        e = self.run("fn:" + ctor)
        croot = ("P", ("L", e.entry_frame, 1), ())
        for st in e.finals:
            ret = st.store.get(("L", e.entry_frame, 0), {})
            for k, v in ret.items():
                if k[:2] != (("v", 0), 0) or (k and k[-1] in ("$len", "$discr", "$layout")):
                    continue
                pth = tuple(k[2:])
                src = None
                if v[0] == "i" and not v[1][1]:
                    out.setdefault(pth, (pth, True))
                    continue
                if v[0] == "i" and len(v[1][1]) == 1 and v[1][0] == 0 and v[1][1][0][1] == 1:
                    nm = e.sym_names[v[1][1][0][0]]
                    if isinstance(nm, tuple) and nm[0] == "init" and nm[1] == croot:
                        src = tuple(nm[2])
                elif v[0] == "t" and isinstance(v[1], tuple) and v[1] and v[1][0] == "init" and v[1][1] == croot:
                    src = tuple(v[1][2])
                if src and isinstance(src[0], int) and src[0] < len(cfields):
                    rest = src[1:]
                    if rest and pth[-len(rest):] == rest:
                        pth = pth[:-len(rest)]
                    out.setdefault(cfields[src[0]], (pth, False))
        return out

    def client_layout(self):
        """{public ClientConfig field name: path inside the Client value} (by interpreting Client::new)"""
        lay = getattr(self, "_client_layout", None)
        if lay is None:
            lay = {k: p for k, (p, c) in self.ctor_layout("tftpd::client::Client::new", "tftpd::client_config::ClientConfig").items() if isinstance(k, str)}
            self._client_layout = lay
        return lay

    def server_layout(self):
        """Where the Server value keeps what: {role: path inside Server}. Roles are the names of the PUBLIC fields of
        Config (the documented configuration API) for everything Server::new copies from its Config argument - found by
        interpreting Server::new, so Server's private fields may be renamed, reordered or grouped into helper structs -
        plus three roles found by type / by construction: 'socket' (the UdpSocket), 'clients' (the HashMap) and
        'largest_block_size' (the usize that Server::new initialises with a constant)."""
        lay = getattr(self, "_server_layout", None)
        if lay is not None:
            return lay
        prog = self.lib
        lay = {}
        CONFIG = "tftpd::config::Config"
        if SERVER not in prog.adts:
            self._server_layout = lay
            return lay

        leaves = list(self.struct_leaves(SERVER))
        for (pth, ti, nm) in leaves:
            ts = prog.types[ti]["s"]
            if ts == "std::net::UdpSocket":
                lay.setdefault("socket", pth)
            elif ts.startswith("std::collections::HashMap<"):
                lay.setdefault("clients", pth)
        for k, (pth, isconst) in self.ctor_layout(SERVER + "::new", CONFIG).items():
            if isinstance(k, str):
                lay.setdefault(k, pth)
            elif isconst:
                for (lp, lti, _) in leaves:
                    if lp == pth and prog.types[lti]["s"] == "usize":
                        lay.setdefault("largest_block_size", pth)
        self._server_layout = lay
        return lay

    def _compute(self, name):
        prog = self.lib
        if name == "listen":
            lay = self.server_layout()
            eng = self.engine()
            p_lbs = lay.get("largest_block_size")
            p_dup = lay.get("duplicate_packets")

            def setup(e, st, fr):
                # type invariant of Server (proved separately by the C05/C16 rules):
                #   largest_block_size <= 65464, duplicate_packets <= 254
                root = ("P", ("L", fr.id, 1), ())
                if p_lbs is not None:
                    v = e.read(st, root, p_lbs, e.static_type(root, p_lbs))
                    if v[0] == "i":
                        st.ctx.add(lin.le(v[1], lin.const(65464)))
                        st.ctx.add(lin.le(lin.const(512), v[1]))
                if p_dup is not None:
                    v = e.read(st, root, p_dup, e.static_type(root, p_dup))
                    if v[0] == "i":
                        st.ctx.add(lin.le(v[1], lin.const(254)))

            fr, finals = eng.run("tftpd::server::Server::listen", setup=setup, region="listener")
            eng.finals = finals
            eng.entry_frame = fr.id
            return eng
        if name == "client":
            eng = self.engine()
            fr, finals = eng.run("tftpd::client::Client::run", region="client")
            eng.finals = finals
            eng.entry_frame = fr.id
            return eng
        if name.startswith("fn:"):
            path = name[3:]
            eng = self.engine()
            fr, finals = eng.run(path, region="fn:" + path)
            eng.finals = finals
            eng.entry_frame = fr.id
            return eng
        if name.startswith("sock:"):
            path = name[5:]
            eng = self.engine()

            def setup(e, st, fr):
                if fr.body.arg_count >= 2:
                    v = e.read(st, ("L", fr.id, 2), (), fr.body.local_ty(2))
                    if v[0] == "i":
                        st.ctx.add(lin.le(v[1], lin.const(65464)))

            fr, finals = eng.run(path, setup=setup, region="fn:" + path)
            eng.finals = finals
            eng.entry_frame = fr.id
            return eng
        if name.startswith("window:"):
            meth = name[7:]
            path = WINDOW + "::" + meth
            wl = self.window_layout()
            eng = self.engine()
            p_el, p_sz, p_ck = wl.get("elements"), wl.get("size"), wl.get("chunk_size")

            def setup(e, st, fr):
                body = fr.body
                t = prog.types[body.local_ty(1)] if body.arg_count >= 1 else None
                if t is not None and t["k"] == "ref" and p_el is not None and p_sz is not None:
                    root = ("P", ("L", fr.id, 1), ())
                    ln = e.read(st, root, p_el + ("$len",))
                    sz = e.read(st, root, p_sz, e.static_type(root, p_sz))
                    st.ctx.add(lin.le(ln[1], sz[1]))
                    if p_ck is not None:
                        # precondition of the library API: a sane chunk size (the server passes 8..=65464)
                        ck = e.read(st, root, p_ck, e.static_type(root, p_ck))
                        st.ctx.add(lin.le(ck[1], lin.const(1 << 24)))

            fr, finals = eng.run(path, setup=setup, region="fn:" + path)
            eng.finals = finals
            eng.entry_frame = fr.id
            return eng
        raise KeyError(name)


def _field_ty(prog, adt, fi):
    return prog.adts[adt]["variants"][0]["fields"][fi]["ty"]


def get_world(verbose=False, features=("client",), keep=()):
    """facts + analysis cache for REPO's current working tree, built with the given cargo features"""
    os.makedirs(CACHE, exist_ok=True)
    lock = open(os.path.join(CACHE, "lock"), "w")
    fcntl.flock(lock, fcntl.LOCK_EX)
    try:
        h = _hash_tree() + ("" if tuple(features) == ("client",) else "-f_" + "_".join(features))
        d = os.path.join(CACHE, h)
        facts = os.path.join(d, "facts")
        need = ["tftpd.lib.json", "tftpd.bin.json"] + (["tftpc.bin.json"] if "client" in features else [])
        if not all(os.path.exists(os.path.join(facts, n)) for n in need):
            shutil.rmtree(d, ignore_errors=True)
            os.makedirs(facts)
            t0 = time.time()
            extract_facts(facts, features=tuple(features))
            missing = [n for n in need if not os.path.exists(os.path.join(facts, n))]
            if missing:
                raise SystemExit("fact extraction produced no %s" % missing)
            if verbose:
                print("facts extracted in %.1fs" % (time.time() - t0))
            # keep the cache small: drop other trees' caches
            for other in os.listdir(CACHE):
                p = os.path.join(CACHE, other)
                if os.path.isdir(p) and other != h and other not in keep and not other.startswith(h.split("-f_")[0]):
                    shutil.rmtree(p, ignore_errors=True)
        w = World(facts, d)
        w.tree_hash = h
        return w
    finally:
        fcntl.flock(lock, fcntl.LOCK_UN)
        lock.close()
