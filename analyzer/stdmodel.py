"""Curated models of the std callees that occur in rs-tftpd (DESIGN.md section 2.6).

Every std callee is classified:
  MODEL  - has an effect/obligation/post-condition below
  TOTAL  - cannot panic and has no numeric effect the analyses need (opaque result)
  anything else is UNCLASSIFIED: opaque result, reported, and treated as "may panic" where a
  region must not panic (fail closed).
"""
import re
from . import lin
from .engine import I, ICONST, T, const_of, ISIZE_MAX

ALLOC_MAX = 1 << 24          # a single buffer larger than this is "attacker sized"
U64_MAX = (1 << 64) - 1
I64_MAX = (1 << 63) - 1

# callees that cannot panic (reviewed); opaque result is all the analyses need
TOTAL = {
    "<T as std::convert::Into<U>>::into",
    "<T as std::string::ToString>::to_string",
    "<std::net::SocketAddr as std::convert::From<(I, u16)>>::from",
    "<std::path::PathBuf as std::convert::From<std::string::String>>::from",
    "<std::path::PathBuf as std::default::Default>::default",
    "<std::sync::mpsc::Sender<T> as std::clone::Clone>::clone",
    "<std::time::Duration as std::cmp::PartialEq>::eq",
    "core::fmt::rt::Argument::new_debug",
    "core::fmt::rt::Argument::new_display",
    "core::str::<impl str>::contains",
    "core::str::<impl str>::parse",
    "core::str::<impl str>::trim_start_matches",
    "std::boxed::convert::<impl std::convert::From<&str> for std::boxed::Box<(dyn std::error::Error + 'a)>>::from",
    "std::boxed::convert::<impl std::convert::From<std::string::String> for std::boxed::Box<(dyn std::error::Error + 'a)>>::from",
    "std::boxed::Box::new_uninit",
    "std::boxed::box_assume_init_into_vec_unsafe",
    "std::cmp::PartialEq::ne",
    "std::cmp::PartialOrd::ge",
    "std::cmp::impls::<impl std::cmp::PartialEq<&B> for &A>::eq",
    "std::collections::HashMap::contains_key",
    "std::collections::HashMap::insert",
    "std::env::current_dir",
    "std::env::temp_dir",
    "std::ffi::OsStr::is_empty",
    "std::ffi::OsStr::to_str",
    "std::ffi::OsStr::to_string_lossy",
    "std::ffi::OsString::into_string",
    "std::fmt::Arguments::from_str",
    "std::fmt::Arguments::new",
    "std::fmt::format",
    "std::fs::File::create",
    "std::fs::File::metadata",
    "std::fs::File::open",
    "std::fs::Metadata::len",
    "std::fs::remove_file",
    "std::io::Write::write_all",
    "std::io::_eprint",          # A-STDIO
    "std::io::_print",           # A-STDIO
    "std::iter::Iterator::next",
    "std::net::SocketAddr::ip",
    "std::net::SocketAddr::is_ipv4",
    "std::net::UdpSocket::bind",
    "std::net::UdpSocket::connect",
    "std::net::UdpSocket::local_addr",
    "std::net::UdpSocket::peer_addr",
    "std::net::UdpSocket::send",
    "std::net::UdpSocket::send_to",
    "std::net::UdpSocket::set_read_timeout",
    "std::net::UdpSocket::set_write_timeout",
    "std::net::UdpSocket::try_clone",
    "std::path::Path::display",
    "std::path::Path::exists",
    "std::path::Path::file_name",
    "std::path::Path::join",
    "std::path::Path::metadata",
    "std::path::Path::to_str",
    "std::path::PathBuf::into_os_string",
    "std::str::<impl std::borrow::ToOwned for str>::to_owned",
    "std::str::<impl str>::replace",
    "std::str::<impl str>::to_lowercase",
    "std::sync::Mutex::lock",
    "std::sync::Mutex::new",
    "std::sync::mpsc::Receiver::recv_timeout",
    "std::sync::mpsc::Sender::send",
    "std::sync::mpsc::channel",
    "std::thread::JoinHandle::join",
    "std::thread::sleep",
    "std::time::Duration::as_secs",
    "std::time::Instant::elapsed",
    "std::time::Instant::now",
    "std::mem::drop",
    "std::hint::must_use",
}

# callees documented with "# Panics" that are nevertheless accepted, each with its reason
DOC_PANICS_ACCEPTED = {
    "std::time::Instant::elapsed": "doc section is historical: current std saturates, never panics",
    "std::vec::Vec::push": "panics only if capacity exceeds isize::MAX bytes (A-RES; lengths are bounded by the allocation obligations)",
    "std::collections::VecDeque::push_back": "same as Vec::push (A-RES)",
    "std::thread::spawn": "panics only if the OS refuses a thread (A-RES)",
    "std::thread::JoinHandle::join": "panics only on a platform join failure; not in a no-panic region",
    "std::sync::Mutex::lock": "documented panic is re-locking by the same thread; discharged by lemma L-LOCK where required",
    "std::collections::VecDeque::drain": "modelled: obligation start <= end <= len",
    "std::option::Option::unwrap": "modelled: obligation discriminant == Some",
    "std::result::Result::unwrap": "modelled: obligation discriminant == Ok",
    "<std::collections::HashMap<K, V, S, A> as std::ops::Index<&Q>>::index": "modelled: obligation 'map-index' discharged by lemma L-MAP",
    "std::vec::from_elem": "modelled: allocation obligation",
    "std::slice::<impl [T]>::concat": "panics only on capacity overflow (A-RES)",
    "std::net::UdpSocket::set_read_timeout": "documented Err (not panic) for zero Duration",
    "std::net::UdpSocket::set_write_timeout": "documented Err (not panic) for zero Duration",
    "std::sync::mpsc::Receiver::recv_timeout": "historical note; returns Err on overflow",
    "std::time::Duration::from_secs": "const fn, cannot panic",
}


def _range_kind(s):
    for k in ("RangeInclusive", "RangeFrom", "RangeToInclusive", "RangeTo", "RangeFull", "Range"):
        if ("ops::" + k + "<") in s or s.endswith("ops::" + k) or ("range::" + k + "<") in s:
            return k
    return None


class Models:
    def __init__(self):
        self.table = {}
        self._register()
        self.modelled = set(self.table.keys())

    def classify(self, base):
        if base in self.table:
            return "model"
        if base in TOTAL:
            return "total"
        return "unclassified"

    # ------------------------------------------------------------------
    def apply(self, eng, st, fr, bb, t, base, name, args, dest, ev, kind):
        f = self.table.get(base)
        if f is None:
            return None
        c = Call(eng, st, fr, bb, t, base, args, dest, ev)
        r = f(c)
        if r is None:
            return None
        return r

    def _register(self):
        tb = self.table

        def reg(*names):
            def deco(f):
                for n in names:
                    tb[n] = f
                return f
            return deco

        # ---------------- views: result refers to the same object
        @reg("<std::vec::Vec<T, A> as std::ops::Deref>::deref",
             "<std::vec::Vec<T, A> as std::ops::DerefMut>::deref_mut",
             "<std::string::String as std::ops::Deref>::deref",
             "<std::path::PathBuf as std::ops::Deref>::deref",
             "<std::sync::MutexGuard<'_, T> as std::ops::Deref>::deref",
             "std::vec::Vec::as_slice",
             "std::string::String::as_str",
             "std::string::String::as_bytes",
             "core::str::<impl str>::as_bytes",
             "std::path::Path::as_os_str",
             "std::path::Path::new",
             "std::hint::must_use",
             "<I as std::iter::IntoIterator>::into_iter")
        def view(c):
            c.set_dest(c.args[0][0])
            return [c.st]

        # ---------------- clone-like: result is a copy of the referent
        @reg("<std::path::PathBuf as std::clone::Clone>::clone",
             "<std::string::String as std::clone::Clone>::clone",
             "std::path::Path::to_path_buf",
             "std::path::<impl std::borrow::ToOwned for std::path::Path>::to_owned")
        def clone(c):
            v = c.argv(0)
            if v[0] == "r":
                c.set_dest(c.eng.subtree(c.st, v[1], v[2]))
            else:
                c.set_dest({(): T(("clone", v))})
            return [c.st]

        @reg("<std::path::PathBuf as std::clone::Clone>::clone_from")
        def clone_from(c):
            a, b = c.argv(0), c.argv(1)
            if a[0] == "r" and b[0] == "r":
                c.eng.write_subtree(c.st, a[1], a[2], c.eng.subtree(c.st, b[1], b[2]), c.node)
            c.set_dest({(): T(("unit", "()"))})
            return [c.st]

        @reg("std::slice::<impl [T]>::to_vec",
             "<std::vec::Vec<T, A> as std::clone::Clone>::clone",
             "std::slice::<impl std::borrow::ToOwned for [T]>::to_owned",
             "<std::vec::Vec<T> as std::convert::From<&[T]>>::from",
             "<std::vec::Vec<T> as std::convert::From<&'a [T]>>::from")
        def to_vec(c):
            v = c.argv(0)
            out = {(): T(("app", "to_vec", (v,)))}
            if v[0] == "r":
                out[("$len",)] = c.eng.read_len(c.st, v[1], v[2])
                out[("$copy_of",)] = ("r", v[1], v[2], False)
            c.set_dest(out)
            if v[0] == "r":
                self._set_layout(c, c.st, c.dest[0], c.dest[1], self._segs_of(c, c.st, c.args[0][0]))
            return [c.st]

        @reg("std::boxed::Box::new")
        def box_new(c):
            sub = c.args[0][0]
            c.set_dest({("D",) + k: v for k, v in sub.items()})
            return [c.st]

        @reg("<bool as std::default::Default>::default", "<u8 as std::default::Default>::default")
        def zero(c):
            c.set_dest({(): ICONST(0)})
            return [c.st]

        # ---------------- Try / Option / Result plumbing
        @reg("<std::result::Result<T, E> as std::ops::Try>::branch")
        def try_branch(c):
            outs = []
            for (vi, s2) in c.fork_discr(0, 2):
                sub = c.args[0][0]
                if vi == 0:
                    out = {("$discr",): ICONST(0)}
                    for k, v in c.payload(s2, 0, ("v", 0)).items():
                        out[(("v", 0),) + k] = v
                else:
                    out = {("$discr",): ICONST(1), (("v", 1), 0, "$discr"): ICONST(1)}
                    for k, v in c.payload(s2, 0, ("v", 1)).items():
                        out[(("v", 1), 0, ("v", 1)) + k] = v
                c.set_dest(out, s2)
                outs.append(s2)
            return outs

        @reg("<std::result::Result<T, F> as std::ops::FromResidual<std::result::Result<std::convert::Infallible, E>>>::from_residual")
        def from_residual(c):
            inner = c.payload(c.st, 0, ("v", 1))
            e = inner.get((0,), inner.get((), T(("residual",))))
            out = {("$discr",): ICONST(1), (("v", 1), 0): T(("app", "from_error", (e,)))}
            c.set_dest(out)
            return [c.st]

        @reg("std::option::Option::unwrap", "std::result::Result::unwrap", "std::option::Option::expect",
             "std::result::Result::expect")
        def unwrap(c):
            is_opt = "Option" in c.base
            good = 1 if is_opt else 0
            d = c.discr(c.st, 0)
            e = d[1]
            ok = c.st.ctx.entails_eq(e, lin.const(good))
            src = c.args[0][0].get(())
            ob = c.eng.oblige(c.st, c.fr, c.bb, "unwrap", c.base.rsplit("::", 2)[-2] + "::unwrap", ok,
                              "" if ok else "discriminant not known to be %s" % ("Some" if is_opt else "Ok"))
            if ob is not None:
                ob.value = src
            c.st.ctx.add_eq(e, lin.const(good))
            c.set_dest(c.payload(c.st, 0, ("v", good), field0=True))
            return [c.st]

        # ---------------- Option / Result combinators (the callable is invoked: closures and crate-local fns are inlined)
        def variant(vi, sub):
            out = {("$discr",): ICONST(vi)}
            for k, v in sub.items():
                out[(("v", vi), 0) + k] = v
            return out

        def combinator(c, is_opt, on_good, on_bad):
            """fork on the discriminant of argument 0; on_good/on_bad(state, payload) -> [(state, dest subtree)]"""
            good = 1 if is_opt else 0
            outs = []
            for (vi, s2) in c.fork_discr(0, 2):
                if vi == good:
                    rs = on_good(s2, c.payload(s2, 0, ("v", good), field0=True, typed=False))
                else:
                    pl = {} if is_opt else c.payload(s2, 0, ("v", 1), field0=True, typed=False)
                    rs = on_bad(s2, pl)
                for (s3, sub) in rs:
                    c.set_dest(sub, s3)
                    outs.append(s3)
            return outs

        def call(c, i, argsubs):
            return lambda s, pl: c.invoke(s, i, [pl] if argsubs == "payload" else [])

        def wrap(vi, rs):
            return [(s, variant(vi, sub)) for (s, sub) in rs]

        @reg("std::option::Option::take", "std::mem::take")
        def take_(c):
            """Option::take / mem::take on an Option: hands out the current value and leaves None (the type's default) behind"""
            v = c.argv(0)
            if v[0] != "r":
                return None
            cur = c.eng.subtree(c.st, v[1], v[2])
            if "mem::take" in c.base and cur.get(("$discr",)) is None:
                return None        # only Options are modelled (their default is None)
            c.set_dest(cur)
            c.eng.write_subtree(c.st, v[1], v[2], {("$discr",): ICONST(0)}, c.node)
            return [c.st]

        @reg("std::option::Option::replace", "std::mem::replace")
        def replace_(c):
            """mem::replace(dest, new) / Option::replace(&mut self, value): returns the old value, stores the new one"""
            v = c.argv(0)
            if v[0] != "r":
                return None
            cur = c.eng.subtree(c.st, v[1], v[2])
            new = dict(c.args[1][0])
            if "Option::replace" in c.base:
                new = {(("v", 1), 0) + k: x for k, x in new.items()}
                new[("$discr",)] = ICONST(1)
            c.set_dest(cur)
            c.eng.write_subtree(c.st, v[1], v[2], new, c.node)
            return [c.st]

        @reg("std::option::Option::transpose")
        def opt_transpose(c):
            """Option<Result<T, E>> -> Result<Option<T>, E>"""
            outs = []
            for (vi, s2) in c.fork_discr(0, 2):
                if vi == 0:
                    c.set_dest({("$discr",): ICONST(0), (("v", 0), 0, "$discr"): ICONST(0)}, s2)
                    outs.append(s2)
                    continue
                inner = c.payload(s2, 0, ("v", 1), field0=True, typed=False)
                d = inner.get(("$discr",))
                if d is None:
                    base = inner.get(())
                    d = c.eng.project(base[1], ("$discr",), None) if base is not None and base[0] == "t" else I(lin.var(c.eng.fresh("discr", (0, 1))))
                for rv in (0, 1):
                    s3 = s2.fork() if rv == 0 else s2
                    cons = [lin.le(d[1], lin.const(rv)), lin.le(lin.const(rv), d[1])] if d[0] == "i" else []
                    if cons and s3.ctx.infeasible_with(cons):
                        continue
                    for cc in cons:
                        s3.ctx.add(cc)
                    pre = (("v", rv), 0)
                    pl = {k[2:]: x for k, x in inner.items() if len(k) >= 2 and k[:2] == pre}
                    if not pl:
                        base = inner.get(())
                        pl = {(): c.eng.project(base[1], pre, None)} if base is not None and base[0] == "t" else {(): T(("payload", c.site, 0, rv))}
                    if rv == 0:
                        out = {("$discr",): ICONST(0), (("v", 0), 0, "$discr"): ICONST(1)}
                        for k, x in pl.items():
                            out[(("v", 0), 0, ("v", 1), 0) + k] = x
                    else:
                        out = {("$discr",): ICONST(1)}
                        for k, x in pl.items():
                            out[(("v", 1), 0) + k] = x
                    c.set_dest(out, s3)
                    outs.append(s3)
            return outs

        @reg("core::str::<impl str>::parse")
        def str_parse(c):
            """text.parse::<T>() for a crate-local T is T's FromStr impl: interpret it (numbers keep the default treatment)"""
            prog = c.eng.prog
            g = c.t["fn"].get("gargs") or []
            if not g or prog.types[g[0]]["k"] != "adt":
                return None
            tp = prog.types[g[0]]["path"]
            if "::" not in tp:
                return None
            crate, rest = tp.split("::", 1)
            callee = prog.bodies.get("%s::<%s as std::str::FromStr>::from_str" % (crate, rest))
            if callee is None or c.fr.depth >= c.eng.max_depth:
                return None
            ev2 = c.eng.synthetic_call_event(c.fr, c.bb, c.st, callee.path, [c.args[0]], (c.dest[0], c.dest[1]))
            if c.ev is not None:
                c.ev.inlined = True
            outs = c.eng.inline(c.fr, c.bb, c.st, c.t, callee, [c.args[0]], c.dest, ev2, {})
            return [s2 for (_, s2) in outs]

        @reg("std::iter::Iterator::flat_map", "std::iter::Iterator::map")
        def lazy_map(c):
            """a lazy adapter: the inner iterator's view plus the callable (consumed by Vec::extend; opaque elsewhere)"""
            out = {k: x for k, x in c.args[0][0].items() if k == ("$over",) or k == ("$len",)}
            out[()] = T(("app", c.base, c.site, (c.argv(0),)))
            out[("$adapter",)] = T((c.base.rsplit("::", 1)[-1],))
            for k, x in c.args[1][0].items():
                out[("$f",) + k] = x
            if c.args[1][1] is not None:
                out[("$fti",)] = ICONST(c.args[1][1])
            c.set_dest(out)
            return [c.st]

        @reg("std::ops::FnOnce::call_once", "std::ops::FnMut::call_mut", "std::ops::Fn::call")
        def call_callable(c):
            """`f(args)` inside a generic helper (`F: FnOnce(..)`): MIR calls the trait method on the type parameter"""
            tup = c.args[1][0]
            idx = sorted(set(k[0] for k in tup if k and isinstance(k[0], int)))
            arg_subs = [{k[1:]: v for k, v in tup.items() if k and k[0] == i} for i in idx]
            outs = []
            for (s2, sub) in c.invoke(c.st, 0, arg_subs):
                c.set_dest(sub, s2)
                outs.append(s2)
            return outs

        @reg("std::result::Result::unwrap_or_else", "std::option::Option::unwrap_or_else")
        def unwrap_or_else(c):
            is_opt = "Option" in c.base
            return combinator(c, is_opt, lambda s, pl: [(s, pl)],
                              lambda s, pl: c.invoke(s, 1, [] if is_opt else [pl]))

        @reg("std::result::Result::unwrap_or", "std::option::Option::unwrap_or")
        def unwrap_or(c):
            is_opt = "Option" in c.base
            return combinator(c, is_opt, lambda s, pl: [(s, pl)], lambda s, pl: [(s, dict(c.args[1][0]))])

        @reg("std::result::Result::map", "std::option::Option::map")
        def map_(c):
            is_opt = "Option" in c.base
            good = 1 if is_opt else 0
            return combinator(c, is_opt, lambda s, pl: wrap(good, c.invoke(s, 1, [pl])),
                              lambda s, pl: [(s, variant(1 - good, pl) if not is_opt else {("$discr",): ICONST(0)})])

        @reg("std::result::Result::map_err")
        def map_err(c):
            return combinator(c, False, lambda s, pl: [(s, variant(0, pl))], lambda s, pl: wrap(1, c.invoke(s, 1, [pl])))

        @reg("std::result::Result::and_then", "std::option::Option::and_then")
        def and_then(c):
            is_opt = "Option" in c.base
            return combinator(c, is_opt, lambda s, pl: c.invoke(s, 1, [pl]),
                              lambda s, pl: [(s, variant(1, pl) if not is_opt else {("$discr",): ICONST(0)})])

        @reg("std::result::Result::or_else", "std::option::Option::or_else")
        def or_else(c):
            is_opt = "Option" in c.base
            good = 1 if is_opt else 0
            return combinator(c, is_opt, lambda s, pl: [(s, variant(good, pl))],
                              lambda s, pl: c.invoke(s, 1, [] if is_opt else [pl]))

        @reg("std::option::Option::ok_or_else")
        def ok_or_else(c):
            return combinator(c, True, lambda s, pl: [(s, variant(0, pl))], lambda s, pl: wrap(1, c.invoke(s, 1, [])))

        @reg("std::result::Result::ok")
        def res_ok(c):
            return combinator(c, False, lambda s, pl: [(s, variant(1, pl))], lambda s, pl: [(s, {("$discr",): ICONST(0)})])

        @reg("std::result::Result::err")
        def res_err(c):
            return combinator(c, False, lambda s, pl: [(s, {("$discr",): ICONST(0)})], lambda s, pl: [(s, variant(1, pl))])

        @reg("std::option::Option::map_or", "std::result::Result::map_or")
        def map_or(c):
            is_opt = "Option" in c.base
            return combinator(c, is_opt, lambda s, pl: c.invoke(s, 2, [pl]), lambda s, pl: [(s, dict(c.args[1][0]))])

        @reg("std::option::Option::map_or_else", "std::result::Result::map_or_else")
        def map_or_else(c):
            is_opt = "Option" in c.base
            return combinator(c, is_opt, lambda s, pl: c.invoke(s, 2, [pl]),
                              lambda s, pl: c.invoke(s, 1, [] if is_opt else [pl]))

        @reg("std::option::Option::is_some_and", "std::result::Result::is_ok_and")
        def is_good_and(c):
            is_opt = "Option" in c.base
            return combinator(c, is_opt, lambda s, pl: c.invoke(s, 1, [pl]), lambda s, pl: [(s, {(): ICONST(0)})])

        @reg("std::result::Result::is_err_and")
        def is_err_and(c):
            return combinator(c, False, lambda s, pl: [(s, {(): ICONST(0)})], lambda s, pl: c.invoke(s, 1, [pl]))

        @reg("std::option::Option::is_none_or")
        def is_none_or(c):
            return combinator(c, True, lambda s, pl: c.invoke(s, 1, [pl]), lambda s, pl: [(s, {(): ICONST(1)})])

        @reg("std::option::Option::filter")
        def opt_filter(c):
            def good(s, pl):
                # the predicate gets a reference to the payload: materialise it
                c.eng.symctr += 1
                tmp = ("L", c.fr.id, ("hofarg", c.bb, c.eng.symctr))
                c.eng.write_subtree(s, tmp, (), pl, None)
                outs = []
                for (s3, r) in c.invoke(s, 1, [{(): ("r", tmp, (), False)}]):
                    v = r.get(())
                    pl3 = c.eng.subtree(s3, tmp, ())
                    s3.store.pop(tmp, None)
                    for (truth, s4) in c.eng.fork_bool(s3, v):
                        outs.append((s4, variant(1, pl3) if truth else {("$discr",): ICONST(0)}))
                return outs
            return combinator(c, True, good, lambda s, pl: [(s, {("$discr",): ICONST(0)})])

        @reg("std::option::Option::as_ref", "std::option::Option::as_mut", "std::result::Result::as_ref", "std::result::Result::as_mut")
        def as_ref(c):
            v = c.argv(0)
            if v[0] != "r":
                return None
            is_opt = "Option" in c.base
            mut = c.base.endswith("as_mut")
            d = c.eng.read(c.st, v[1], v[2] + ("$discr",))
            k = const_of(d)
            outs = []
            cases = [k] if k is not None else [0, 1]
            for vi in cases:
                s2 = c.st if vi == cases[-1] else c.st.fork()
                if k is None:
                    cons = [lin.le(d[1], lin.const(vi)), lin.le(lin.const(vi), d[1])]
                    if s2.ctx.infeasible_with(cons):
                        continue
                    for cc in cons:
                        s2.ctx.add(cc)
                if is_opt and vi == 0:
                    c.set_dest({("$discr",): ICONST(0)}, s2)
                else:
                    c.set_dest({("$discr",): ICONST(vi), (("v", vi), 0): ("r", v[1], v[2] + (("v", vi), 0), mut)}, s2)
                outs.append(s2)
            return outs

        @reg("std::option::Option::ok_or")
        def ok_or(c):
            outs = []
            for (vi, s2) in c.fork_discr(0, 2):
                if vi == 1:
                    out = {("$discr",): ICONST(0)}
                    for k, v in c.payload(s2, 0, ("v", 1), field0=True).items():
                        out[(("v", 0), 0) + k] = v
                else:
                    out = {("$discr",): ICONST(1)}
                    for k, v in c.args[1][0].items():
                        out[(("v", 1), 0) + k] = v
                c.set_dest(out, s2)
                outs.append(s2)
            return outs

        @reg("std::result::Result::is_err", "std::result::Result::is_ok", "std::option::Option::is_some",
             "std::option::Option::is_none")
        def is_variant(c):
            which = c.base.rsplit("::", 1)[-1]
            want = {"is_err": 1, "is_ok": 0, "is_some": 1, "is_none": 0}[which]
            v = c.argv(0)
            if v[0] == "r":
                d = c.eng.read(c.st, v[1], v[2] + ("$discr",))
            else:
                d = c.discr(c.st, 0)
            k = const_of(d)
            if k is not None:
                c.set_dest({(): ICONST(1 if k == want else 0)})
            else:
                c.set_dest({(): ("b", ("cmp", "Eq", d[1], lin.const(want)))})
            return [c.st]

        # ---------------- lengths
        @reg("core::slice::<impl [T]>::len", "std::vec::Vec::len", "std::collections::VecDeque::len",
             "std::string::String::len", "core::str::<impl str>::len")
        def length(c):
            c.set_dest({(): c.len_of_arg(0)})
            return [c.st]

        @reg("core::slice::<impl [T]>::is_empty", "std::collections::VecDeque::is_empty", "std::vec::Vec::is_empty")
        def is_empty(c):
            n = c.len_of_arg(0)
            k = const_of(n)
            if k is not None:
                c.set_dest({(): ICONST(1 if k == 0 else 0)})
            else:
                c.set_dest({(): ("b", ("cmp", "Eq", n[1], lin.const(0)))})
            return [c.st]

        @reg("std::vec::Vec::new", "std::collections::VecDeque::new", "std::collections::HashMap::new",
             "std::vec::Vec::with_capacity", "std::collections::VecDeque::with_capacity", "std::collections::HashMap::with_capacity",
             "std::string::String::new", "std::string::String::with_capacity")
        def new_empty(c):
            c.set_dest({(): T(("app", c.base, c.site, ())), ("$len",): ICONST(0)})
            return [c.st]

        @reg("std::vec::from_elem")
        def from_elem(c):
            n = c.eng.as_lin(c.argv(1), c.args[1][1])
            c.eng.require(c.st, c.fr, c.bb, "alloc", "vec![x; n]: n <= %d" % ALLOC_MAX, [lin.le(n, lin.const(ALLOC_MAX))])
            c.set_dest({(): T(("app", "from_elem", c.site, (c.argv(0),))), ("$len",): I(n)})
            return [c.st]


        # ---------------- byte-sequence layout: which segments, in which order, a byte vector was built from
        # A Vec carries a ghost entry $layout = T(("layout", segments, producer fn)); segments are
        #   ("seg", value, star)   bytes of `value` (star: shallow snapshot of what a reference points to)
        #   ("byte", value)        one pushed element
        #   ("acc", term)          unknown prefix (e.g. the loop-head value of an accumulator)
        #   ("nested", segments, producer)  a vector built elsewhere (kept nested for rules that want the producer)
        def layout_of(sub):
            lv = sub.get(("$layout",))
            if lv is not None and lv[0] == "t" and isinstance(lv[1], tuple) and lv[1] and lv[1][0] == "layout":
                return lv[1]
            return None

        def shallow(eng, st, v):
            if v is None or v[0] != "r" or "E" in v[2]:
                return None
            tgt = eng.subtree(st, v[1], v[2])
            if len(tgt) > 64:
                return None
            return tuple(sorted(((k, vv) for k, vv in tgt.items() if len(k) <= 2), key=repr))

        def segs_of(c, st, sub):
            """segments denoted by a value (by-value Vec / array, or a reference to a slice / Vec / array)"""
            lay = layout_of(sub)
            if lay is not None:
                return [("nested", lay[1], lay[2])]
            v = sub.get(())
            if v is not None and v[0] == "r" and "E" not in v[2]:
                tsub = c.eng.subtree(st, v[1], v[2])
                lay = layout_of(tsub)
                if lay is not None:
                    return [("nested", lay[1], lay[2])]
                return [("seg", v, shallow(c.eng, st, v))]
            if v is None:
                return [("seg", ("agg", tuple(sorted(sub.items(), key=repr))), None)]
            if v[0] == "t" and isinstance(v[1], tuple) and v[1] and v[1][0] in ("phi", "join", "havoc"):
                return [("acc", v[1])]
            return [("seg", v, None)]

        def set_layout(c, st, root, path, segs):
            term = T(("layout", tuple(segs), c.fr.body.path))
            c.eng.write(st, root, path + ("$layout",), term, c.node)
            if c.eng.record:
                c.eng.layout_log.append((c.node, c.fr.id, root, path, tuple(segs)))

        def cur_layout(c, st, v):
            """segments of the vector behind &mut v so far (unknown contents become an accumulator segment)"""
            tsub = c.eng.subtree(st, v[1], v[2])
            lay = layout_of(tsub)
            if lay is not None:
                return list(lay[1])
            ln = tsub.get(("$len",))
            if ln is not None and const_of(ln) == 0:
                return []
            cur = tsub.get(("$layout",)) or tsub.get(())
            return [("acc", cur[1] if cur is not None and cur[0] == "t" else ("unknown", v[1], v[2]))]

        def add_len(c, st, v, extra):
            n = c.eng.read_len(st, v[1], v[2])
            if n[0] == "i" and extra is not None and extra[0] == "i":
                c.eng.write(st, v[1], v[2] + ("$len",), I(lin.add(n[1], extra[1])), c.node)
            else:
                c.eng.write(st, v[1], v[2] + ("$len",), I(lin.var(c.eng.fresh("len", (0, ISIZE_MAX)))), c.node)

        def len_of_sub(c, st, sub):
            if ("$len",) in sub:
                return sub[("$len",)]
            v = sub.get(())
            if v is not None and v[0] == "r":
                return c.eng.read_len(st, v[1], v[2])
            return None

        self._set_layout = set_layout
        self._segs_of = segs_of

        @reg("std::slice::<impl [T]>::concat")
        def concat(c):
            v = c.argv(0)
            out = {(): T(("app", "concat", c.site, (v,)))}
            segs = None
            total = None
            if v[0] == "r":
                n = const_of(c.eng.read_len(c.st, v[1], v[2]))
                if n is not None and n <= 64:
                    segs = []
                    total = lin.const(0)
                    for i in range(n):
                        esub = c.eng.subtree(c.st, v[1], v[2] + (("a", i),))
                        segs.extend(segs_of(c, c.st, esub))
                        ln = len_of_sub(c, c.st, esub)
                        total = lin.add(total, ln[1]) if (total is not None and ln is not None and ln[0] == "i") else None
            out[("$len",)] = I(total) if total is not None else I(lin.var(c.eng.fresh("len", (0, ISIZE_MAX))))
            c.set_dest(out)
            if segs is not None:
                set_layout(c, c.st, c.dest[0], c.dest[1], segs)
            return [c.st]

        @reg("std::vec::Vec::extend_from_slice",
             "<std::vec::Vec<T, A> as std::iter::Extend<&'a T>>::extend",
             "<std::vec::Vec<T, A> as std::iter::Extend<T>>::extend")
        def extend_from_slice(c):
            v = c.argv(0)
            if v[0] != "r":
                return None
            ad = c.args[1][0].get(("$adapter",))
            if ad is not None and ad[0] == "t" and ad[1][0] in ("flat_map", "map"):
                # buf.extend(items.iter().flat_map(f)): zero or more times  buf.extend(f(item)).  One state leaves the vector as
                # it is (no item); the other stands for "after some item": an accumulated prefix followed by f(item)'s bytes -
                # the same two layouts a loop `for item in items { buf.extend(f(item)) }` yields.
                asub = c.args[1][0]
                fsub = {k[1:]: x for k, x in asub.items() if k and k[0] == "$f"}
                ft = asub.get(("$fti",))
                fti = const_of(ft) if ft is not None else None
                over = asub.get(("$over",))
                item = {(): ("r", over[1], tuple(over[2]) + ("E",), False)} if over is not None and over[0] == "r" else {(): T(("item-of", c.site))}
                outs = []
                s_none = c.st.fork()
                c.set_dest({(): T(("unit", "()"))}, s_none)
                outs.append(s_none)
                for (s2, res) in c.eng.invoke_callable(c.fr, c.bb, c.st, c.t.get("t"), fsub, fti, [item]):
                    if ad[1][0] == "flat_map":
                        tail = segs_of(c, s2, res)
                    else:
                        x = res.get(())
                        tail = [("byte", x)] if x is not None and x[0] in ("i", "b") else [("seg", x if x is not None else ("agg", ()), None)]
                    c.eng.write(s2, v[1], v[2] + ("$len",), I(lin.var(c.eng.fresh("len", (0, ISIZE_MAX)))), c.node)
                    c.eng.write_subtree(s2, v[1], v[2] + ("E",), {(): T(("elem-of", c.argv(1)))}, c.node)
                    set_layout(c, s2, v[1], v[2], [("acc", (ad[1][0], c.site))] + tail)
                    c.set_dest({(): T(("unit", "()"))}, s2)
                    outs.append(s2)
                return outs
            segs = cur_layout(c, c.st, v) + segs_of(c, c.st, c.args[1][0])
            add_len(c, c.st, v, len_of_sub(c, c.st, c.args[1][0]))
            c.eng.write_subtree(c.st, v[1], v[2] + ("E",), {(): T(("elem-of", c.argv(1)))}, c.node)
            set_layout(c, c.st, v[1], v[2], segs)
            c.set_dest({(): T(("unit", "()"))})
            return [c.st]

        @reg("std::vec::Vec::append")
        def vec_append(c):
            v, w = c.argv(0), c.argv(1)
            if v[0] != "r" or w[0] != "r":
                return None
            wsub = c.eng.subtree(c.st, w[1], w[2])
            lay = layout_of(wsub)
            segs = cur_layout(c, c.st, v) + (list(lay[1]) if lay is not None else cur_layout(c, c.st, w))
            add_len(c, c.st, v, wsub.get(("$len",)))
            c.eng.write(c.st, w[1], w[2] + ("$len",), ICONST(0), c.node)
            set_layout(c, c.st, w[1], w[2], [])
            set_layout(c, c.st, v[1], v[2], segs)
            c.set_dest({(): T(("unit", "()"))})
            return [c.st]

        @reg("std::vec::Vec::push", "std::collections::VecDeque::push_back", "std::collections::VecDeque::push_front")
        def push(c):
            v = c.argv(0)
            if v[0] == "r":
                if c.base == "std::vec::Vec::push":
                    x = c.argv(1)
                    if x[0] in ("i", "b"):
                        # a byte pushed onto a byte vector: keep the layout
                        set_layout(c, c.st, v[1], v[2], cur_layout(c, c.st, v) + [("byte", x)])
                n = c.eng.read_len(c.st, v[1], v[2])
                c.eng.write(c.st, v[1], v[2] + ("$len",), I(lin.add(n[1], lin.const(1))), c.node)
                c.eng.write_subtree(c.st, v[1], v[2] + ("E",), c.args[1][0], c.node)
            c.set_dest({(): T(("unit", "()"))})
            return [c.st]

        @reg("std::collections::VecDeque::pop_front", "std::collections::VecDeque::pop_back", "std::vec::Vec::pop")
        def pop(c):
            v = c.argv(0)
            if v[0] != "r":
                return None
            n = c.eng.read_len(c.st, v[1], v[2])
            outs = []
            s_none = c.st.fork()
            if not s_none.ctx.infeasible_with([lin.le(n[1], lin.const(0))]):
                s_none.ctx.add(lin.le(n[1], lin.const(0)))
                c.set_dest({("$discr",): ICONST(0)}, s_none)
                outs.append(s_none)
            s_some = c.st
            if not s_some.ctx.infeasible_with([lin.le(lin.const(1), n[1])]):
                s_some.ctx.add(lin.le(lin.const(1), n[1]))
                c.eng.write(s_some, v[1], v[2] + ("$len",), I(lin.sub(n[1], lin.const(1))), c.node)
                c.eng.symctr += 1
                c.set_dest({("$discr",): ICONST(1), (("v", 1), 0): T(("popped", c.site, c.eng.symctr))}, s_some)
                outs.append(s_some)
            return outs

        @reg("core::num::<impl u16>::saturating_sub", "core::num::<impl usize>::saturating_sub", "core::num::<impl u8>::saturating_sub",
             "core::num::<impl u32>::saturating_sub", "core::num::<impl u64>::saturating_sub")
        def saturating_sub(c):
            a, b = c.argv(0), c.argv(1)
            if a[0] != "i" or b[0] != "i":
                return None
            outs = []
            s1 = c.st.fork()
            if not s1.ctx.infeasible_with([lin.le(b[1], a[1])]):
                s1.ctx.add(lin.le(b[1], a[1]))
                c.set_dest({(): I(lin.sub(a[1], b[1]))}, s1)
                outs.append(s1)
            s2 = c.st
            if not s2.ctx.infeasible_with([lin.lt(a[1], b[1])]):
                s2.ctx.add(lin.lt(a[1], b[1]))
                c.set_dest({(): ICONST(0)}, s2)
                outs.append(s2)
            return outs

        @reg("std::collections::VecDeque::clear", "std::vec::Vec::clear")
        def clear(c):
            v = c.argv(0)
            if v[0] == "r":
                c.eng.write(c.st, v[1], v[2] + ("$len",), ICONST(0), c.node)
            c.set_dest({(): T(("unit", "()"))})
            return [c.st]

        @reg("std::vec::Vec::truncate")
        def truncate(c):
            v = c.argv(0)
            n = c.eng.as_lin(c.argv(1), c.args[1][1])
            if v[0] == "r":
                old = c.eng.read_len(c.st, v[1], v[2])[1]
                if c.st.ctx.entails(lin.le(n, old)):
                    new = n
                elif c.st.ctx.entails(lin.le(old, n)):
                    new = old
                else:
                    s = c.eng.fresh("trunc_len", (0, ISIZE_MAX))
                    new = lin.var(s)
                    c.st.ctx.add(lin.le(new, old))
                    c.st.ctx.add(lin.le(new, n))
                c.eng.write(c.st, v[1], v[2] + ("$len",), I(new), c.node)
            c.set_dest({(): T(("unit", "()"))})
            return [c.st]

        @reg("std::collections::VecDeque::drain", "std::vec::Vec::drain")
        def drain(c):
            v = c.argv(0)
            rk, start, end = c.range_arg(1)
            if v[0] == "r":
                ln = c.eng.read_len(c.st, v[1], v[2])[1]
                s = start if start is not None else lin.const(0)
                e = end if end is not None else ln
                c.eng.require(c.st, c.fr, c.bb, "range", "drain(a..b): a <= b <= len", [lin.le(s, e), lin.le(e, ln)])
                if c.eng.record:
                    c.eng.drain_log.append((c.node, s, e))
                c.eng.write(c.st, v[1], v[2] + ("$len",), I(lin.sub(ln, lin.sub(e, s))), c.node)
                c.set_dest({(): T(("app", "drain", c.site, ())), ("$drain_from",): I(s), ("$drain_to",): I(e)})
            else:
                c.set_dest({(): T(("app", "drain", c.site, ()))})
            return [c.st]

        # ---------------- indexing (slices, Vec, arrays)
        def range_bounds(rk, start, end, ln):
            """(start, end (exclusive), constraints `start <= end <= len` as  e <= 0  terms) of slice[range]"""
            cons = []
            if rk == "RangeFull":
                s, e = lin.const(0), ln
            elif rk == "RangeFrom":
                s, e = start, ln
                cons = [lin.le(s, ln)]
            elif rk == "RangeTo":
                s, e = lin.const(0), end
                cons = [lin.le(e, ln)]
            elif rk == "RangeToInclusive":
                s, e = lin.const(0), lin.add(end, lin.const(1))
                cons = [lin.le(e, ln)]
            elif rk == "RangeInclusive":
                s, e = start, lin.add(end, lin.const(1))
                cons = [lin.le(s, e), lin.le(e, ln)]
            else:
                s, e = start, end
                cons = [lin.le(s, e), lin.le(e, ln)]
            return s, e, cons

        @reg("core::slice::index::<impl std::ops::Index<I> for [T]>::index",
             "core::slice::index::<impl std::ops::IndexMut<I> for [T]>::index_mut",
             "<std::vec::Vec<T, A> as std::ops::Index<I>>::index",
             "<std::vec::Vec<T, A> as std::ops::IndexMut<I>>::index_mut",
             "std::array::<impl std::ops::Index<I> for [T; N]>::index")
        def index(c):
            v = c.argv(0)
            rk, start, end = c.range_arg(1)
            if v[0] != "r":
                return None
            ln = c.eng.read_len(c.st, v[1], v[2])[1]
            if rk is None:
                # single element
                i = c.eng.as_lin(c.argv(1), c.args[1][1])
                c.eng.require(c.st, c.fr, c.bb, "index", "slice[i]: i < len", [lin.lt(i, ln)])
                c.set_dest({(): ("r", v[1], v[2] + ("E",), v[3])})
                return [c.st]
            s, e, cons = range_bounds(rk, start, end, ln)
            c.eng.require(c.st, c.fr, c.bb, "range", "slice[%s]: start <= end <= len" % rk, cons)
            if c.eng.record:
                c.eng.index_log.append((c.node, c.fr.id, rk, s, e))
            root = ("H", c.site)
            c.st.store[root] = {("$len",): I(lin.sub(e, s)),
                                ("$slice_of",): ("r", v[1], v[2], False),
                                ("$slice_from",): I(s)}
            c.set_dest({(): ("r", root, (), v[3])})
            return [c.st]

        def subslice(c, st, v, s_, e_, tag):
            root = ("H", (c.site, tag))
            st.store[root] = {("$len",): I(lin.sub(e_, s_)), ("$slice_of",): ("r", v[1], v[2], False), ("$slice_from",): I(s_)}
            if c.eng.record:
                c.eng.index_log.append((c.node, c.fr.id, tag, s_, e_))
            return ("r", root, (), v[3])

        @reg("core::slice::<impl [T]>::split_at", "core::slice::<impl [T]>::split_at_mut", "core::str::<impl str>::split_at")
        def split_at(c):
            """slice.split_at(mid) = (&slice[..mid], &slice[mid..]); panics when mid > len"""
            v = c.argv(0)
            if v[0] != "r":
                return None
            ln = c.eng.read_len(c.st, v[1], v[2])[1]
            mid = c.eng.as_lin(c.argv(1), c.args[1][1])
            c.eng.require(c.st, c.fr, c.bb, "range", "split_at(mid): mid <= len", [lin.le(mid, ln)])
            c.set_dest({(0,): subslice(c, c.st, v, lin.const(0), mid, "split_at.0"), (1,): subslice(c, c.st, v, mid, ln, "split_at.1")})
            return [c.st]

        @reg("core::slice::<impl [T]>::first", "core::slice::<impl [T]>::last", "core::slice::<impl [T]>::first_mut", "core::slice::<impl [T]>::last_mut")
        def first_last(c):
            """Some(&element) iff the slice is not empty"""
            v = c.argv(0)
            if v[0] != "r":
                return None
            ln = c.eng.read_len(c.st, v[1], v[2])[1]
            outs = []
            s2 = c.st.fork()
            if not s2.ctx.infeasible_with([lin.le(lin.const(1), ln)]):
                s2.ctx.add(lin.le(lin.const(1), ln))
                c.set_dest({("$discr",): ICONST(1), (("v", 1), 0): ("r", v[1], tuple(v[2]) + ("E",), v[3])}, s2)
                outs.append(s2)
            s3 = c.st
            if not s3.ctx.infeasible_with([lin.le(ln, lin.const(0))]):
                s3.ctx.add(lin.le(ln, lin.const(0)))
                c.set_dest({("$discr",): ICONST(0)}, s3)
                outs.append(s3)
            return outs

        @reg("core::slice::<impl [T]>::split_first", "core::slice::<impl [T]>::split_last")
        def split_first(c):
            """Some((&element, &rest)) iff the slice is not empty"""
            v = c.argv(0)
            if v[0] != "r":
                return None
            ln = c.eng.read_len(c.st, v[1], v[2])[1]
            outs = []
            s2 = c.st.fork()
            if not s2.ctx.infeasible_with([lin.le(lin.const(1), ln)]):
                s2.ctx.add(lin.le(lin.const(1), ln))
                if c.base.endswith("split_first"):
                    rest = subslice(c, s2, v, lin.const(1), ln, "split_first")
                else:
                    rest = subslice(c, s2, v, lin.const(0), lin.sub(ln, lin.const(1)), "split_last")
                c.set_dest({("$discr",): ICONST(1), (("v", 1), 0, 0): ("r", v[1], tuple(v[2]) + ("E",), v[3]), (("v", 1), 0, 1): rest}, s2)
                outs.append(s2)
            s3 = c.st
            if not s3.ctx.infeasible_with([lin.le(ln, lin.const(0))]):
                s3.ctx.add(lin.le(ln, lin.const(0)))
                c.set_dest({("$discr",): ICONST(0)}, s3)
                outs.append(s3)
            return outs

        @reg("std::array::<impl std::convert::TryFrom<&[T]> for [T; N]>::try_from",
             "std::array::<impl std::convert::TryFrom<&'a [T]> for &'a [T; N]>::try_from")
        def array_try_from(c):
            """<[T; N]>::try_from(slice): Ok (the N elements) iff slice.len() == N"""
            prog = c.eng.prog
            v = c.argv(0)
            n = None
            dt = prog.types[c.dest[2]] if c.dest[2] is not None else None
            if dt is not None and dt["k"] == "adt" and dt.get("args"):
                at = prog.types[prog.peel_refs(dt["args"][0])]
                if at["k"] == "array" and str(at.get("len", "")).isdigit():
                    n = int(at["len"])
            if v[0] != "r" or n is None:
                return None
            ln = c.eng.read_len(c.st, v[1], v[2])[1]
            outs = []
            s2 = c.st.fork()
            eq = [lin.le(ln, lin.const(n)), lin.le(lin.const(n), ln)]
            if not s2.ctx.infeasible_with(eq):
                for cc in eq:
                    s2.ctx.add(cc)
                if "&'a [T; N]" in c.base:
                    out = {("$discr",): ICONST(0), (("v", 0), 0): v}
                else:
                    ti_el = None
                    out = {("$discr",): ICONST(0), (("v", 0), 0, "$len"): ICONST(n)}
                    for i in range(min(n, 16)):
                        out[(("v", 0), 0, ("a", i))] = c.eng.read(s2, v[1], tuple(v[2]) + ("E",), prog.types[prog.peel_refs(dt["args"][0])]["inner"])
                c.set_dest(out, s2)
                outs.append(s2)
            for cons in ([lin.lt(ln, lin.const(n))], [lin.lt(lin.const(n), ln)]):
                s3 = c.st.fork()
                if s3.ctx.infeasible_with(cons):
                    continue
                s3.ctx.add(cons[0])
                c.set_dest({("$discr",): ICONST(1), (("v", 1), 0): T(("app", "TryFromSliceError", c.site, ()))}, s3)
                outs.append(s3)
            return outs

        @reg("std::ops::RangeInclusive::new")
        def range_incl_new(c):
            out = {}
            for k, vv in c.args[0][0].items():
                out[(0,) + k] = vv
            for k, vv in c.args[1][0].items():
                out[(1,) + k] = vv
            out[("$kind",)] = T(("RangeInclusive",))
            c.set_dest(out)
            return [c.st]

        @reg("std::ops::RangeInclusive::contains", "std::ops::Range::contains")
        def range_contains(c):
            r, x = c.argv(0), c.argv(1)
            if r[0] != "r" or x[0] != "r":
                return None
            lo = c.eng.read(c.st, r[1], r[2] + (0,))
            hi = c.eng.read(c.st, r[1], r[2] + (1,))
            xv = c.eng.read(c.st, x[1], x[2])
            if xv[0] != "i" and lo[0] == "i" and hi[0] == "i":
                # an item not read before (e.g. a field of an element reached through iter_mut): read it at the range's index type
                prog = c.eng.prog
                xti = None
                for cand in (c.args[1][1], c.args[0][1]):
                    if cand is None:
                        continue
                    tt = prog.types[prog.peel_refs(cand)]
                    if tt["k"] == "int":
                        xti = prog.peel_refs(cand)
                    elif tt["k"] == "adt" and tt.get("args") and prog.types[tt["args"][0]]["k"] == "int":
                        xti = tt["args"][0]
                    if xti is not None:
                        break
                if xti is not None:
                    xv = c.eng.read(c.st, x[1], x[2], xti)
            if lo[0] != "i" or hi[0] != "i" or xv[0] != "i":
                return None
            incl = "Inclusive" in c.base
            for bnd in (lo, hi):
                if lin.is_const(bnd[1]):
                    c.eng.note_const(xv[1], bnd[1][0])
            inside = [lin.le(lo[1], xv[1]), lin.le(xv[1], hi[1]) if incl else lin.lt(xv[1], hi[1])]
            cases = [(1, inside), (0, [lin.lt(xv[1], lo[1])]), (0, [lin.lt(hi[1], xv[1]) if incl else lin.le(hi[1], xv[1])])]
            outs = []
            for i, (res, cons) in enumerate(cases):
                s2 = c.st.fork() if i < len(cases) - 1 else c.st
                if s2.ctx.infeasible_with(cons):
                    continue
                for cc in cons:
                    s2.ctx.add(cc)
                c.set_dest({(): ICONST(res)}, s2)
                outs.append(s2)
            return outs

        # ---------------- iterators
        @reg("core::slice::<impl [T]>::iter", "core::slice::<impl [T]>::iter_mut",
             "<&'a std::vec::Vec<T, A> as std::iter::IntoIterator>::into_iter",
             "<&'a std::collections::VecDeque<T, A> as std::iter::IntoIterator>::into_iter",
             "core::slice::iter::<impl std::iter::IntoIterator for &'a mut [T]>::into_iter",
             "core::slice::iter::<impl std::iter::IntoIterator for &'a [T]>::into_iter",
             "std::collections::VecDeque::iter")
        def make_iter(c):
            v = c.argv(0)
            out = {(): T(("app", "iter", c.site, (v,)))}
            if v[0] == "r":
                out[("$len",)] = c.eng.read_len(c.st, v[1], v[2])
                out[("$over",)] = ("r", v[1], v[2], v[3])
            c.set_dest(out)
            return [c.st]

        @reg("std::path::Path::ancestors")
        def ancestors(c):
            # the iterator over a path and its parents; elements are tagged so that rules / monitors recognise them
            v = c.argv(0)
            pv = c.eng.read(c.st, v[1], v[2]) if v[0] == "r" and "E" not in v[2] else v
            out = {(): T(("app", "std::path::Path::ancestors", c.site, (("ref", v, pv) if pv is not None and pv[0] == "t" else v,))),
                   ("$kind",): T(("ancestors",))}
            if v[0] == "r":
                out[("$over",)] = ("r", v[1], v[2], False)
            c.set_dest(out)
            return [c.st]

        @reg("<std::slice::Iter<'a, T> as std::iter::Iterator>::next",
             "<std::slice::IterMut<'a, T> as std::iter::Iterator>::next",
             "<std::collections::vec_deque::Iter<'a, T> as std::iter::Iterator>::next",
             "<std::path::Ancestors<'a> as std::iter::Iterator>::next")
        def iter_next(c):
            v = c.argv(0)
            over = None
            kind = None
            if v[0] == "r":
                over = c.st.store.get(v[1], {}).get(v[2] + ("$over",))
                kind = c.st.store.get(v[1], {}).get(v[2] + ("$kind",))
            outs = []
            s_none = c.st.fork()
            c.set_dest({("$discr",): ICONST(0)}, s_none)
            outs.append(s_none)
            s_some = c.st
            # the element handed out by this call: a fresh object (consistent within the iteration,
            # unrelated to the elements of other iterations)
            c.eng.symctr += 1
            ovr = (over[1], over[2]) if over is not None and over[0] == "r" else None
            etag = ("elem", c.site, c.eng.symctr, ovr) + ((kind[1][0],) if kind is not None and kind[0] == "t" else ())
            elem = ("r", ("P", etag), (), bool(over[3]) if over is not None and over[0] == "r" else False)
            c.set_dest({("$discr",): ICONST(1), (("v", 1), 0): elem}, s_some)
            outs.append(s_some)
            return outs

        # ---------------- closure-taking adapters: the closure is executed once, standing for an arbitrary iteration
        def iter_elem(c, st):
            """element handed to the callable: like `next`, a fresh object of the iterated container / a value of the range"""
            sub = c.args[0][0]
            v = sub.get(())
            ti0 = c.args[0][1]
            if v is not None and v[0] == "r" and "E" not in v[2]:
                # adapters taking `&mut self`: look at the iterator behind the reference
                sub = c.eng.subtree(st, v[1], v[2])
                ti0 = c.eng.prog.peel_refs(ti0) if ti0 is not None else None
            over = sub.get(("$over",))
            kind = sub.get(("$kind",))
            c.eng.symctr += 1
            if over is not None and over[0] == "r":
                etag = ("elem", c.site, c.eng.symctr, (over[1], over[2])) + ((kind[1][0],) if kind is not None and kind[0] == "t" else ())
                return {(): ("r", ("P", etag), (), bool(over[3]))}
            lo, hi = sub.get((0,)), sub.get((1,))
            ts = c.eng.prog.types[ti0]["s"] if ti0 is not None else ""
            if lo is not None and hi is not None and lo[0] == "i" and hi[0] == "i" and _range_kind(ts) == "Range":
                i = c.eng.named(("iter-index", c.site), None)
                st.ctx.add(lin.le(lo[1], lin.var(i)))
                st.ctx.add(lin.lt(lin.var(i), hi[1]))
                return {(): I(lin.var(i))}
            return {(): T(("iter-elem", c.site, c.eng.symctr))}

        def split_discr(c, s, rsub, nvals=2):
            """[(value, state)] for the feasible values of the discriminant of a result subtree"""
            d = rsub.get(("$discr",))
            if d is None:
                base = rsub.get(())
                d = c.eng.project(base[1], ("$discr",), None) if base is not None and base[0] == "t" else I(lin.var(c.eng.fresh("discr", (0, 1))))
            k = const_of(d)
            if k is not None:
                return [(k, s, d)]
            outs = []
            for vi in range(nvals):
                s2 = s.fork() if vi < nvals - 1 else s
                cons = [lin.le(d[1], lin.const(vi)), lin.le(lin.const(vi), d[1])]
                if s2.ctx.infeasible_with(cons):
                    continue
                for cc in cons:
                    s2.ctx.add(cc)
                outs.append((vi, s2, d))
            return outs

        @reg("core::slice::<impl [T]>::get")
        def slice_get(c):
            """slice.get(i) with an integer index: Some(&slice[i]) iff i < len; a small constant array is split by index"""
            v, iv = c.argv(0), c.argv(1)
            if v[0] == "r" and iv[0] != "i":
                # slice.get(a..b): Some(&slice[a..b]) iff a <= b <= len
                rk, start, end = c.range_arg(1)
                if rk is None:
                    return None
                ln = c.eng.read_len(c.st, v[1], v[2])[1]
                s, e, cons = range_bounds(rk, start, end, ln)
                outs = []
                s2 = c.st.fork()
                if not s2.ctx.infeasible_with(cons):
                    for cc in cons:
                        s2.ctx.add(cc)
                    if c.eng.record:
                        c.eng.index_log.append((c.node, c.fr.id, rk, s, e))
                    root = ("H", c.site)
                    s2.store[root] = {("$len",): I(lin.sub(e, s)), ("$slice_of",): ("r", v[1], v[2], False), ("$slice_from",): I(s)}
                    c.set_dest({("$discr",): ICONST(1), (("v", 1), 0): ("r", root, (), v[3])}, s2)
                    outs.append(s2)
                for j, cc in enumerate(cons):
                    s3 = c.st.fork()
                    neg = [lin.lt(lin.const(0), cc)] + cons[:j]       # cc is  e <= 0 ; its negation  0 < e
                    if s3.ctx.infeasible_with(neg):
                        continue
                    for x_ in neg:
                        s3.ctx.add(x_)
                    c.set_dest({("$discr",): ICONST(0)}, s3)
                    outs.append(s3)
                return outs
            if v[0] != "r" or iv[0] != "i":
                return None
            ln = c.eng.read_len(c.st, v[1], v[2])
            n = const_of(ln)
            outs = []
            k = const_of(iv)
            known = n is not None and n <= 16 and c.eng.has_subtree(c.st, v[1], tuple(v[2]) + (("a", 0),)) or \
                (n is not None and n <= 16 and c.st.store.get(v[1], {}).get(tuple(v[2]) + (("a", 0),)) is not None)
            if known:
                for j in ([k] if k is not None and k < n else ([] if k is not None else range(n))):
                    s2 = c.st.fork()
                    cons = [lin.le(iv[1], lin.const(j)), lin.le(lin.const(j), iv[1])]
                    if s2.ctx.infeasible_with(cons):
                        continue
                    for cc in cons:
                        s2.ctx.add(cc)
                    c.set_dest({("$discr",): ICONST(1), (("v", 1), 0): ("r", v[1], tuple(v[2]) + (("a", j),), False)}, s2)
                    outs.append(s2)
            else:
                s2 = c.st.fork()
                if not s2.ctx.infeasible_with([lin.lt(iv[1], ln[1])]):
                    s2.ctx.add(lin.lt(iv[1], ln[1]))
                    c.set_dest({("$discr",): ICONST(1), (("v", 1), 0): ("r", v[1], tuple(v[2]) + ("E",), False)}, s2)
                    outs.append(s2)
            s3 = c.st
            if not s3.ctx.infeasible_with([lin.le(ln[1], iv[1])]):
                s3.ctx.add(lin.le(ln[1], iv[1]))
                c.set_dest({("$discr",): ICONST(0)}, s3)
                outs.append(s3)
            return outs

        @reg("std::option::Option::copied", "std::option::Option::cloned")
        def opt_copied(c):
            outs = []
            for (vi, s2) in c.fork_discr(0, 2):
                if vi == 0:
                    c.set_dest({("$discr",): ICONST(0)}, s2)
                else:
                    pl = c.payload(s2, 0, ("v", 1), field0=True, typed=False)
                    r = pl.get(())
                    if r is not None and r[0] == "r":
                        pl = c.eng.subtree(s2, r[1], r[2])
                    out = {("$discr",): ICONST(1)}
                    for kk, vv in pl.items():
                        out[(("v", 1), 0) + kk] = vv
                    c.set_dest(out, s2)
                outs.append(s2)
            return outs

        @reg("std::iter::Iterator::copied", "std::iter::Iterator::cloned")
        def iter_copied(c):
            out = dict(c.args[0][0])
            out[("$byvalue",)] = ICONST(1)
            c.set_dest(out)
            return [c.st]

        @reg("std::iter::Iterator::find")
        def iter_find(c):
            """find over a small constant-length array: the predicate is tried on the elements in order; otherwise one
            representative element (summarised iteration)"""
            eng = c.eng
            sub = c.args[0][0]
            v = sub.get(())
            if v is not None and v[0] == "r" and "E" not in v[2]:
                sub = eng.subtree(c.st, v[1], v[2])
            over = sub.get(("$over",))
            byval = sub.get(("$byvalue",)) is not None
            n = const_of(eng.read_len(c.st, over[1], over[2])) if over is not None and over[0] == "r" else None
            res = []
            if n is not None and n <= 16 and (eng.has_subtree(c.st, over[1], tuple(over[2]) + (("a", 0),)) or
                                               c.st.store.get(over[1], {}).get(tuple(over[2]) + (("a", 0),)) is not None):
                states = [c.st]
                for j in range(n):
                    nxt_states = []
                    for st_ in states:
                        eplace = (over[1], tuple(over[2]) + (("a", j),))
                        if byval:
                            # Item = T: the predicate gets a reference to a copy
                            eng.symctr += 1
                            tmp = ("L", c.fr.id, ("finditem", c.bb, eng.symctr))
                            eng.write_subtree(st_, tmp, (), eng.subtree(st_, eplace[0], eplace[1]), None)
                            arg = {(): ("r", tmp, (), False)}
                            item = eng.subtree(st_, eplace[0], eplace[1])
                        else:
                            # Item = &T: the predicate gets &&T
                            eng.symctr += 1
                            tmp = ("L", c.fr.id, ("finditem", c.bb, eng.symctr))
                            eng.write_subtree(st_, tmp, (), {(): ("r", eplace[0], eplace[1], False)}, None)
                            arg = {(): ("r", tmp, (), False)}
                            item = {(): ("r", eplace[0], eplace[1], False)}
                        for (s2, rsub) in c.invoke(st_, 1, [arg]):
                            s2.store.pop(tmp, None)
                            for (truth, s3) in eng.fork_bool(s2, rsub.get(())):
                                if truth:
                                    out = {("$discr",): ICONST(1)}
                                    for kk, vv in item.items():
                                        out[(("v", 1), 0) + kk] = vv
                                    c.set_dest(out, s3)
                                    res.append(s3)
                                else:
                                    nxt_states.append(s3)
                    states = nxt_states
                for st_ in states:
                    c.set_dest({("$discr",): ICONST(0)}, st_)
                    res.append(st_)
                return res
            loop_id, exit_state, outs = eng.summarised_iteration(c.fr, c.bb, c.st, c.t.get("t"), c.args[1][0], c.args[1][1],
                                                                 lambda s: [iter_elem_ref(c, s)], adapter="find")
            c.set_dest({("$discr",): ICONST(0)}, exit_state)
            res.append(exit_state)
            for (s, rsub) in outs:
                for (truth, s2) in eng.fork_bool(s, rsub.get(())):
                    if truth:
                        c.set_dest({("$discr",): ICONST(1), (("v", 1), 0): T(("found", c.site))}, s2)
                        res.append(s2)
                    else:
                        eng.iteration_continues(loop_id, s2, exit_state)
            return res

        def iter_elem_ref(c, st):
            e = iter_elem(c, st)
            c.eng.symctr += 1
            tmp = ("L", c.fr.id, ("finditem", c.bb, c.eng.symctr))
            c.eng.write_subtree(st, tmp, (), e, None)
            return {(): ("r", tmp, (), False)}

        @reg("std::iter::Iterator::for_each", "std::iter::Iterator::try_for_each", "std::iter::Iterator::any", "std::iter::Iterator::all")
        def iter_adapter(c):
            which = c.base.rsplit("::", 1)[-1]
            eng = c.eng
            loop_id, exit_state, outs = eng.summarised_iteration(c.fr, c.bb, c.st, c.t.get("t"), c.args[1][0], c.args[1][1],
                                                                 lambda s: [iter_elem(c, s)], adapter=which)
            res = []
            if which == "for_each":
                for (s, rsub) in outs:
                    eng.iteration_continues(loop_id, s, exit_state)
                c.set_dest({(): T(("unit", "()"))}, exit_state)
                return [exit_state]
            if which in ("any", "all"):
                stop = (which == "any")
                # exhausted without a deciding element
                c.mark(exit_state, 0)
                c.set_dest({(): ICONST(0 if stop else 1)}, exit_state)
                res.append(exit_state)
                for (s, rsub) in outs:
                    for (truth, s2) in eng.fork_bool(s, rsub.get(())):
                        if truth == stop:
                            c.mark(s2, 1)
                            c.set_dest({(): ICONST(1 if stop else 0)}, s2)
                            res.append(s2)
                        else:
                            eng.iteration_continues(loop_id, s2, exit_state)
                return res
            # try_for_each: R = Result<(), E> / Option<()>: a failing call ends the iteration with its residual
            ds = eng.prog.types[c.dest[2]]["s"] if c.dest[2] is not None else ""
            is_opt = "option::Option" in ds
            good = 1 if is_opt else 0
            c.set_dest({("$discr",): ICONST(good)}, exit_state)
            res.append(exit_state)
            for (s, rsub) in outs:
                for (vi, s2, d) in split_discr(c, s, rsub):
                    if vi == good:
                        eng.iteration_continues(loop_id, s2, exit_state)
                        continue
                    if eng.record and s2.aids and c.t.get("t") is not None:
                        # failing calls leave through a node of their own (the continuation is shared with the exhausted case)
                        frm = eng.arg_proj[s2.aids[0]]
                        brk = (c.fr.id, ("break", c.bb))
                        eng.arg_node(brk, s2)
                        eng.edges.add((frm, brk, "flow"))
                        eng.edges.add((brk, (c.fr.id, c.t["t"]), "flow"))
                        eng.nodes[brk] = eng.nodes.get(brk, 0) + 1
                        if not lin.is_const(d[1]):
                            eng.edge_conds.setdefault((frm, brk), []).append(("eq", d[1], vi))
                    out = dict(rsub)
                    out[("$discr",)] = ICONST(vi)
                    c.set_dest(out, s2)
                    res.append(s2)
            return res

        @reg("std::iter::Iterator::enumerate")
        def enumerate_(c):
            # a view of the inner iterator plus the running index
            out = dict(c.args[0][0])
            out[("$enum",)] = ICONST(0)
            c.set_dest(out)
            return [c.st]

        @reg("<std::iter::Enumerate<I> as std::iter::Iterator>::next")
        def enum_next(c):
            eng = c.eng
            prog = eng.prog
            v = c.argv(0)
            if v[0] != "r":
                return None
            ti = prog.peel_refs(c.args[0][1]) if c.args[0][1] is not None else None
            inner = prog.types[ti].get("args", [None])[0] if ti is not None else None
            s_ = prog.types[inner]["s"] if inner is not None else ""
            if "slice::Iter<" in s_ or "slice::IterMut<" in s_ or "vec_deque::Iter<" in s_:
                fn = iter_next
            elif "ops::Range<" in s_:
                fn = range_next
            else:
                return None
            eng.symctr += 1
            tmp = ("L", c.fr.id, ("enumnext", c.bb, eng.symctr))
            c2 = Call(eng, c.st, c.fr, c.bb, c.t, c.base, c.args, (tmp, (), None), None)
            outs = fn(c2)
            if outs is None:
                return None
            res = []
            for s2 in outs:
                rsub = eng.subtree(s2, tmp, ())
                s2.store.pop(tmp, None)
                d = rsub.get(("$discr",))
                if d is not None and const_of(d) == 1:
                    cnt = eng.read(s2, v[1], tuple(v[2]) + ("$enum",))
                    if cnt[0] != "i":
                        cnt = I(lin.var(eng.fresh("enum", (0, ISIZE_MAX))))
                    eng.write(s2, v[1], tuple(v[2]) + ("$enum",), I(lin.add(cnt[1], lin.const(1))), c.node)
                    out = {("$discr",): ICONST(1), (("v", 1), 0, 0): cnt}
                    for k, vv in rsub.items():
                        if k[:2] == (("v", 1), 0):
                            out[(("v", 1), 0, 1) + k[2:]] = vv
                    c.set_dest(out, s2)
                else:
                    c.set_dest({("$discr",): ICONST(0)}, s2)
                res.append(s2)
            return res

        @reg("<std::slice::Iter<'a, T> as std::iter::Iterator>::position")
        def position(c):
            v = c.argv(0)
            ln = None
            if v[0] == "r":
                ln = c.eng.read_len(c.st, v[1], v[2])[1]
            outs = []
            s_none = c.st.fork()
            c.mark(s_none, 0)
            c.set_dest({("$discr",): ICONST(0)}, s_none)
            outs.append(s_none)
            s_some = c.st
            c.mark(s_some, 1)
            i = c.eng.named(("position", c.site), (0, ISIZE_MAX))
            if ln is not None:
                s_some.ctx.add(lin.lt(lin.var(i), ln))
            c.set_dest({("$discr",): ICONST(1), (("v", 1), 0): I(lin.var(i))}, s_some)
            outs.append(s_some)
            return outs

        @reg("std::iter::range::<impl std::iter::Iterator for std::ops::Range<A>>::next")
        def range_next(c):
            v = c.argv(0)
            if v[0] != "r":
                return None
            a = c.eng.read(c.st, v[1], v[2] + (0,))
            b = c.eng.read(c.st, v[1], v[2] + (1,))
            if a[0] != "i" or b[0] != "i":
                return None
            c.eng.link(a[1], b[1])
            outs = []
            s_none = c.st.fork()
            if not s_none.ctx.infeasible_with([lin.le(b[1], a[1])]):
                s_none.ctx.add(lin.le(b[1], a[1]))
                c.set_dest({("$discr",): ICONST(0)}, s_none)
                outs.append(s_none)
            s_some = c.st
            if not s_some.ctx.infeasible_with([lin.lt(a[1], b[1])]):
                s_some.ctx.add(lin.lt(a[1], b[1]))
                c.eng.write(s_some, v[1], v[2] + (0,), I(lin.add(a[1], lin.const(1))), c.node)
                c.set_dest({("$discr",): ICONST(1), (("v", 1), 0): a}, s_some)
                outs.append(s_some)
            return outs

        # ---------------- integers
        @reg("core::num::<impl u16>::wrapping_add", "core::num::<impl u16>::wrapping_sub",
             "core::num::<impl u8>::wrapping_add", "core::num::<impl u8>::wrapping_sub",
             "core::num::<impl u32>::wrapping_add", "core::num::<impl u32>::wrapping_sub",
             "core::num::<impl usize>::wrapping_add", "core::num::<impl usize>::wrapping_sub")
        def wrapping(c):
            bits = {"u8": 8, "u16": 16, "u32": 32, "usize": 64}[re.search(r"impl (\w+)>", c.base).group(1)]
            sub = c.base.endswith("wrapping_sub")
            a, b = c.argv(0), c.argv(1)
            la, lb = c.eng.as_lin(a, c.args[0][1]), c.eng.as_lin(b, c.args[1][1])
            exact = lin.sub(la, lb) if sub else lin.add(la, lb)
            ma = a[2][1] if a[0] == "i" and len(a) > 2 and a[2] is not None and a[2][0] == bits else la
            mb = b[2][1] if b[0] == "i" and len(b) > 2 and b[2] is not None and b[2][0] == bits else lb
            modform = lin.sub(ma, mb) if sub else lin.add(ma, mb)
            hi = (1 << bits) - 1
            if c.st.ctx.entails(lin.le(exact, lin.const(hi))) and c.st.ctx.entails(lin.le(lin.const(0), exact)):
                c.set_dest({(): ("i", exact, (bits, norm_mod(modform, bits)))})
            else:
                # a pure function of its operands: the same operands give the same symbol
                s = c.eng.named(("wrap", "sub" if sub else "add", bits, la, lb), (0, hi))
                c.eng.link(lin.var(s), exact)
                c.set_dest({(): ("i", lin.var(s), (bits, norm_mod(modform, bits)), ("wrapping", "sub" if sub else "add", la, lb))})
            return [c.st]

        @reg("core::num::<impl u16>::from_be_bytes", "core::num::<impl u16>::from_le_bytes")
        def from_bytes(c):
            # u16::from_be_bytes([hi, lo]) = 256 * hi + lo
            sub = c.args[0][0]
            a, b = sub.get((("a", 0),)), sub.get((("a", 1),))
            if a is None or b is None or a[0] != "i" or b[0] != "i":
                c.set_dest({(): I(lin.var(c.eng.named(("ret", ("app", c.base, c.site, (c.argv(0),))), (0, 65535))))})
                return [c.st]
            if c.base.endswith("from_le_bytes"):
                a, b = b, a
            c.set_dest({(): I(lin.add(lin.scale(a[1], 256), b[1]))})
            return [c.st]

        @reg("core::num::<impl u16>::to_be_bytes", "core::num::<impl u16>::to_le_bytes",
             "core::num::<impl u16>::to_ne_bytes")
        def to_bytes(c):
            c.set_dest({(): T(("app", c.base.rsplit("::", 1)[-1], (c.argv(0),))), ("$len",): ICONST(2)})
            return [c.st]

        # ---------------- integer conversions and helpers commonly produced by refactorings
        @reg("<T as std::convert::Into<U>>::into", "<T as std::convert::From<T>>::from")
        def into_(c):
            prog = c.eng.prog
            v = c.argv(0)
            sti, dti = c.args[0][1], c.dest[2]
            if v[0] == "i" and sti is not None and dti is not None and prog.types[sti]["k"] in ("int", "bool", "char") and prog.types[dti]["k"] == "int":
                rs, rd = prog.int_range(sti), prog.int_range(dti)
                if rs is not None and rd is not None and rd[0] <= rs[0] and rs[1] <= rd[1]:
                    c.set_dest({(): v})
                    return [c.st]
            return None

        def widening_from(c):
            prog = c.eng.prog
            v = c.argv(0)
            dti = c.dest[2]
            if v[0] in ("i",) and dti is not None and prog.types[dti]["k"] == "int":
                rd = prog.int_range(dti)
                lo, hi = c.st.ctx.bounds(v[1])
                if rd is not None and lo is not None and hi is not None and rd[0] <= lo and hi <= rd[1]:
                    c.set_dest({(): v})
                    return [c.st]
            return None
        for src_ in ("u8", "u16", "u32", "bool"):
            for dst_ in ("u16", "u32", "u64", "usize", "i32", "i64", "u128"):
                tb["std::convert::num::<impl std::convert::From<%s> for %s>::from" % (src_, dst_)] = widening_from

        def try_from_int(c):
            """<narrow as TryFrom<wide>>::try_from(x): Ok(x) iff x fits"""
            prog = c.eng.prog
            v = c.argv(0)
            m = re.search(r"TryFrom<(\w+)> for (\w+)>", c.base)
            bits = {"u8": 8, "u16": 16, "u32": 32, "u64": 64, "usize": 64}
            if v[0] != "i" or m is None or m.group(2) not in bits:
                return None
            hi = (1 << bits[m.group(2)]) - 1
            outs = []
            s_ok = c.st.fork()
            cons = [lin.le(lin.const(0), v[1]), lin.le(v[1], lin.const(hi))]
            if not s_ok.ctx.infeasible_with(cons):
                for cc in cons:
                    s_ok.ctx.add(cc)
                c.set_dest({("$discr",): ICONST(0), (("v", 0), 0): v}, s_ok)
                outs.append(s_ok)
            s_err = c.st
            if not s_err.ctx.infeasible_with([lin.lt(lin.const(hi), v[1])]):
                s_err.ctx.add(lin.lt(lin.const(hi), v[1]))
                c.set_dest({("$discr",): ICONST(1), (("v", 1), 0): T(("app", "TryFromIntError", c.site, ()))}, s_err)
                outs.append(s_err)
            return outs
        for src_ in ("usize", "u64", "u32", "u16"):
            for dst_ in ("u8", "u16", "u32"):
                if src_ != dst_:
                    tb["std::convert::num::<impl std::convert::TryFrom<%s> for %s>::try_from" % (src_, dst_)] = try_from_int
                    # conversions from / to the pointer-sized types live in a sibling module
                    tb["std::convert::num::ptr_try_from_impls::<impl std::convert::TryFrom<%s> for %s>::try_from" % (src_, dst_)] = try_from_int

        def int_cmp(c):
            """a.cmp(&b) on integers: Less (-1) / Equal (0) / Greater (1)"""
            a, b = c.argv(0), c.argv(1)
            va = c.eng.read(c.st, a[1], a[2]) if a[0] == "r" else a
            vb = c.eng.read(c.st, b[1], b[2]) if b[0] == "r" else b
            if va[0] != "i" or vb[0] != "i":
                return None
            outs = []
            # MIR switches on the i8 discriminant as a raw bit pattern: Less (-1) is 255
            cases = [(255, [lin.lt(va[1], vb[1])]), (0, [lin.le(va[1], vb[1]), lin.le(vb[1], va[1])]), (1, [lin.lt(vb[1], va[1])])]
            for i, (dv, cons) in enumerate(cases):
                s2 = c.st.fork() if i < 2 else c.st
                if s2.ctx.infeasible_with(cons):
                    continue
                for cc in cons:
                    s2.ctx.add(cc)
                c.set_dest({("$discr",): ICONST(dv)}, s2)
                outs.append(s2)
            return outs
        for t_ in ("u8", "u16", "u32", "u64", "usize", "i32", "i64"):
            tb["core::cmp::impls::<impl std::cmp::Ord for %s>::cmp" % t_] = int_cmp
            tb["std::cmp::impls::<impl std::cmp::Ord for %s>::cmp" % t_] = int_cmp

        @reg("core::num::<impl u16>::checked_add", "core::num::<impl usize>::checked_add", "core::num::<impl u8>::checked_add",
             "core::num::<impl u32>::checked_add", "core::num::<impl u64>::checked_add",
             "core::num::<impl u16>::checked_sub", "core::num::<impl usize>::checked_sub", "core::num::<impl u8>::checked_sub",
             "core::num::<impl u32>::checked_sub", "core::num::<impl u64>::checked_sub")
        def checked_arith(c):
            a, b = c.argv(0), c.argv(1)
            if a[0] != "i" or b[0] != "i":
                return None
            bits = {"u8": 8, "u16": 16, "u32": 32, "u64": 64, "usize": 64}[re.search(r"impl (\w+)>", c.base).group(1)]
            hi = (1 << bits) - 1
            r = lin.sub(a[1], b[1]) if c.base.endswith("checked_sub") else lin.add(a[1], b[1])
            outs = []
            s_some = c.st.fork()
            cons = [lin.le(lin.const(0), r), lin.le(r, lin.const(hi))]
            if not s_some.ctx.infeasible_with(cons):
                for cc in cons:
                    s_some.ctx.add(cc)
                c.set_dest({("$discr",): ICONST(1), (("v", 1), 0): I(r)}, s_some)
                outs.append(s_some)
            s_none = c.st
            bad = [lin.lt(r, lin.const(0))] if c.base.endswith("checked_sub") else [lin.lt(lin.const(hi), r)]
            if not s_none.ctx.infeasible_with(bad):
                s_none.ctx.add(bad[0])
                c.set_dest({("$discr",): ICONST(0)}, s_none)
                outs.append(s_none)
            return outs

        @reg("core::num::<impl u16>::saturating_add", "core::num::<impl usize>::saturating_add", "core::num::<impl u8>::saturating_add",
             "core::num::<impl u32>::saturating_add", "core::num::<impl u64>::saturating_add")
        def saturating_add(c):
            a, b = c.argv(0), c.argv(1)
            if a[0] != "i" or b[0] != "i":
                return None
            bits = {"u8": 8, "u16": 16, "u32": 32, "u64": 64, "usize": 64}[re.search(r"impl (\w+)>", c.base).group(1)]
            hi = (1 << bits) - 1
            r = lin.add(a[1], b[1])
            outs = []
            s1 = c.st.fork()
            if not s1.ctx.infeasible_with([lin.le(r, lin.const(hi))]):
                s1.ctx.add(lin.le(r, lin.const(hi)))
                c.set_dest({(): I(r)}, s1)
                outs.append(s1)
            s2 = c.st
            if not s2.ctx.infeasible_with([lin.lt(lin.const(hi), r)]):
                s2.ctx.add(lin.lt(lin.const(hi), r))
                c.set_dest({(): ICONST(hi)}, s2)
                outs.append(s2)
            return outs

        @reg("std::cmp::max", "std::cmp::min", "std::cmp::Ord::max", "std::cmp::Ord::min",
             "std::cmp::impls::<impl std::cmp::Ord for usize>::max", "std::cmp::impls::<impl std::cmp::Ord for usize>::min", "std::cmp::impls::<impl std::cmp::Ord for u16>::max", "std::cmp::impls::<impl std::cmp::Ord for u16>::min",
             "core::cmp::impls::<impl std::cmp::Ord for usize>::max", "core::cmp::impls::<impl std::cmp::Ord for usize>::min",
             "core::cmp::impls::<impl std::cmp::Ord for u16>::max", "core::cmp::impls::<impl std::cmp::Ord for u16>::min")
        def maxmin(c):
            a, b = c.argv(0), c.argv(1)
            if a[0] != "i" or b[0] != "i":
                return None
            ismax = c.base.endswith("max")
            if a[0] == "r" or b[0] == "r":
                return None
            outs = []
            s1 = c.st.fork()
            # a <= b
            if not s1.ctx.infeasible_with([lin.le(a[1], b[1])]):
                s1.ctx.add(lin.le(a[1], b[1]))
                c.set_dest({(): b if ismax else a}, s1)
                outs.append(s1)
            s2 = c.st
            if not s2.ctx.infeasible_with([lin.lt(b[1], a[1])]):
                s2.ctx.add(lin.lt(b[1], a[1]))
                c.set_dest({(): a if ismax else b}, s2)
                outs.append(s2)
            return outs

        @reg("core::str::traits::<impl std::cmp::PartialEq for str>::eq")
        def str_eq(c):
            a, b = c.str_of(0), c.str_of(1)
            if a is not None and b is not None:
                c.set_dest({(): ICONST(1 if a == b else 0)})
            else:
                c.eng.symctr += 1
                c.set_dest({(): ("b", ("opaque", ("streq", c.argv(0), c.argv(1), a, b, c.eng.symctr)))})
            return [c.st]

        @reg("std::cmp::impls::<impl std::cmp::PartialEq<&B> for &A>::eq", "std::cmp::impls::<impl std::cmp::PartialEq<&B> for &A>::ne")
        def ref_eq(c):
            """`&a == &b` delegates to `a == b`; decided here for string slices (constants compare by value)"""
            prog = c.eng.prog
            ti = c.args[0][1]
            base = prog.peel_refs(ti) if ti is not None else None
            if base is None or prog.types[base]["k"] != "str":
                return None
            inner = []
            for i in (0, 1):
                v = c.argv(i)
                hops = 0
                while v is not None and v[0] == "r" and not (v[1][0] == "K") and hops < 4:
                    nv = c.st.store.get(v[1], {}).get(tuple(v[2]))
                    if nv is None or nv[0] != "r":
                        break
                    v = nv
                    hops += 1
                inner.append(v)
            strs = [v[1][1][1] if (v is not None and v[0] == "r" and v[1][0] == "K" and v[1][1][0] == "str") else None for v in inner]
            neg = c.base.endswith("::ne")
            if strs[0] is not None and strs[1] is not None:
                c.set_dest({(): ICONST(1 if (strs[0] == strs[1]) != neg else 0)})
            else:
                c.eng.symctr += 1
                b = ("opaque", ("streq", inner[0], inner[1], strs[0], strs[1], c.eng.symctr))
                c.set_dest({(): ("b", ("not", b) if neg else b)})
            return [c.st]

        # ---------------- time
        @reg("std::time::Duration::from_secs")
        def from_secs(c):
            n = c.eng.as_lin(c.argv(0), c.args[0][1])
            c.set_dest({(): T(("app", "Duration::from_secs", (c.argv(0),))), ("$secs",): I(n)})
            return [c.st]

        @reg("<std::time::Duration as std::ops::Add>::add")
        def dur_add(c):
            a, b = c.secs_of(0), c.secs_of(1)
            tot = lin.add(a, b)
            c.eng.require(c.st, c.fr, c.bb, "duration-add", "Duration + Duration: secs do not overflow u64",
                          [lin.le(lin.add(tot, lin.const(1)), lin.const(U64_MAX))])
            s = c.eng.fresh("dursecs", (0, U64_MAX))
            c.st.ctx.add(lin.le(tot, lin.var(s)))
            c.st.ctx.add(lin.le(lin.var(s), lin.add(tot, lin.const(1))))
            c.set_dest({(): T(("app", "Duration::add", (c.argv(0), c.argv(1)))), ("$secs",): I(lin.var(s))})
            return [c.st]

        @reg("<std::time::Instant as std::ops::Sub<std::time::Duration>>::sub")
        def inst_sub(c):
            b = c.secs_of(1)
            c.eng.require(c.st, c.fr, c.bb, "instant-sub", "Instant - Duration: duration below 2^63 s",
                          [lin.le(b, lin.const(I64_MAX))])
            c.set_dest({(): T(("app", "Instant::sub", c.site, (c.argv(0), c.argv(1))))})
            return [c.st]

        # ---------------- I/O with numeric post-conditions
        @reg("std::net::UdpSocket::recv", "<std::fs::File as std::io::Read>::read")
        def recv(c):
            buf = c.argv(1)
            outs = []
            s_err = c.st.fork()
            c.mark(s_err, 1)
            c.set_dest({("$discr",): ICONST(1), (("v", 1), 0): T(("app", "io_error", c.site, ()))}, s_err)
            outs.append(s_err)
            s_ok = c.st
            c.mark(s_ok, 0)
            n = c.eng.named(("io_n", c.site, c.eng.symctr + 1), (0, ISIZE_MAX))
            c.eng.symctr += 1
            if buf[0] == "r":
                ln = c.eng.read(s_ok, buf[1], buf[2] + ("$len",))[1]
                s_ok.ctx.add(lin.le(lin.var(n), ln))
                c.eng.havoc(s_ok, buf[1], buf[2] + ("E",), ("filled-by", c.base, c.site), c.node)
            c.set_dest({("$discr",): ICONST(0), (("v", 0), 0): I(lin.var(n))}, s_ok)
            outs.append(s_ok)
            return outs

        @reg("std::net::UdpSocket::recv_from")
        def recv_from(c):
            buf = c.argv(1)
            outs = []
            s_err = c.st.fork()
            c.mark(s_err, 1)
            c.set_dest({("$discr",): ICONST(1), (("v", 1), 0): T(("app", "io_error", c.site, ()))}, s_err)
            outs.append(s_err)
            s_ok = c.st
            c.mark(s_ok, 0)
            n = c.eng.named(("io_n", c.site, c.eng.symctr + 1), (0, ISIZE_MAX))
            c.eng.symctr += 1
            if buf[0] == "r":
                ln = c.eng.read(s_ok, buf[1], buf[2] + ("$len",))[1]
                s_ok.ctx.add(lin.le(lin.var(n), ln))
                c.eng.havoc(s_ok, buf[1], buf[2] + ("E",), ("filled-by", c.base, c.site), c.node)
            c.set_dest({("$discr",): ICONST(0), (("v", 0), 0, 0): I(lin.var(n)),
                        (("v", 0), 0, 1): T(("app", "peer_addr_of_datagram", c.site, ()))}, s_ok)
            outs.append(s_ok)
            return outs

        @reg("std::string::String::from_utf8")
        def from_utf8(c):
            outs = []
            s_err = c.st.fork()
            c.mark(s_err, 1)
            c.set_dest({("$discr",): ICONST(1), (("v", 1), 0): T(("app", "utf8_error", c.site, ()))}, s_err)
            outs.append(s_err)
            s_ok = c.st
            c.mark(s_ok, 0)
            sub = c.args[0][0]
            out = {("$discr",): ICONST(0), (("v", 0), 0): T(("app", "String::from_utf8", (sub.get((), T(("vec",))),)))}
            if ("$len",) in sub:
                out[(("v", 0), 0, "$len")] = sub[("$len",)]
            c.set_dest(out, s_ok)
            outs.append(s_ok)
            return outs

        # ---------------- control
        @reg("std::intrinsics::discriminant_value", "core::intrinsics::discriminant_value", "std::mem::discriminant")
        def discriminant_value(c):
            v = c.argv(0)
            if v[0] != "r":
                return None
            d = c.eng.read(c.st, v[1], v[2] + ("$discr",))
            c.set_dest({(): d} if c.base.endswith("discriminant_value") else {(): T(("app", "mem::discriminant", (d,))), (0,): d})
            return [c.st]

        @reg("std::process::exit", "std::process::abort")
        def exit_(c):
            return []

        @reg("std::thread::spawn")
        def spawn(c):
            eng = c.eng
            clos = c.args[0][0]
            cd = clos.get(("$closure",))
            cdef = cd[1][1] if cd is not None else eng.closure_def_of_type(c.t["fn"]["gargs"][0])
            if cdef is not None and eng.record and c.ev is not None:
                c.ev.cond = dict(c.fr.binding) if c.fr.binding else {}
                eng.spawned.append((c.ev, cdef, dict(clos), c.st.fork()))
            c.set_dest({(): T(("app", "JoinHandle", c.site, ()))})
            return [c.st]

        @reg("<std::collections::HashMap<K, V, S, A> as std::ops::Index<&Q>>::index")
        def map_index(c):
            c.eng.oblige(c.st, c.fr, c.bb, "map-index", "HashMap[key]: key present", False,
                         "needs lemma L-MAP (dominating contains_key on the same map and key)")
            c.set_dest({(): ("r", ("P", ("app", "map_value", c.site, (c.argv(0), c.argv(1)))), (), False)})
            return [c.st]

        @reg("std::collections::HashMap::get", "std::collections::HashMap::get_mut")
        def map_get(c):
            mut = c.base.endswith("get_mut")
            s2 = c.st.fork()
            c.set_dest({("$discr",): ICONST(0)}, s2)
            c.set_dest({("$discr",): ICONST(1),
                        (("v", 1), 0): ("r", ("P", ("app", "map_value", c.site, (c.argv(0), c.argv(1)))), (), mut)})
            return [s2, c.st]


def norm_mod(e, bits):
    m = 1 << bits
    return (e[0] % m, tuple((s, k % m) for s, k in e[1] if k % m))


def short(v):
    r = repr(v)
    return r if len(r) < 300 else r[:300] + "..."


class Call:
    def __init__(self, eng, st, fr, bb, t, base, args, dest, ev):
        self.eng = eng
        self.st = st
        self.fr = fr
        self.bb = bb
        self.t = t
        self.base = base
        self.args = args
        self.dest = dest
        self.ev = ev
        self.site = (fr.id, bb)
        self.node = (fr.id, bb)

    def mark(self, st, outcome):
        """record which outcome of this (forking) call a state took: symbol ('outcome', site) == outcome"""
        sym = self.eng.named(("outcome", self.site), (0, 7))
        st.ctx.add_eq(lin.var(sym), lin.const(outcome))

    def argv(self, i):
        sub = self.args[i][0]
        v = sub.get(())
        if v is None:
            return ("agg", tuple(sorted((repr(k), vv) for k, vv in sub.items())))
        return v

    def set_dest(self, sub, st=None):
        st = st or self.st
        self.eng.write_subtree(st, self.dest[0], self.dest[1], dict(sub), self.node)

    def discr(self, st, i):
        sub = self.args[i][0]
        d = sub.get(("$discr",))
        if d is None:
            base = sub.get(())
            if base is not None and base[0] == "t":
                d = self.eng.project(base[1], ("$discr",), None)
            else:
                d = I(lin.var(self.eng.fresh("discr", (0, 1))))
            s = d[1][1][0][0] if d[0] == "i" and len(d[1][1]) == 1 else None
            if s is not None:
                r = self.eng.ranges.get(s)
                if r is None or r[1] is None or r[1] > 1:
                    self.eng.ranges[s] = (0, 1)
        return d

    def fork_discr(self, i, nvariants):
        """[(variant, state)] for feasible variants of enum argument i"""
        d = self.discr(self.st, i)
        k = const_of(d)
        if k is not None:
            return [(k, self.st)]
        outs = []
        e = d[1]
        for vi in range(nvariants):
            s2 = self.st.fork() if vi < nvariants - 1 else self.st
            cons = [lin.le(e, lin.const(vi)), lin.le(lin.const(vi), e)]
            if s2.ctx.infeasible_with(cons):
                continue
            for cc in cons:
                s2.ctx.add(cc)
            outs.append((vi, s2))
        return outs

    def invoke(self, st, i, arg_subs):
        """call the callable passed as argument i -> [(state, result subtree)]"""
        return self.eng.invoke_callable(self.fr, self.bb, st, self.t.get("t"), self.args[i][0], self.args[i][1], arg_subs)

    def payload(self, st, i, variant, field0=False, typed=True):
        """subtree under variant payload of enum argument i. With field0: the single field's subtree."""
        sub = self.args[i][0]
        pre = (variant,) + ((0,) if field0 else ())
        n = len(pre)
        out = {k[n:]: v for k, v in sub.items() if len(k) >= n and k[:n] == pre}
        if not out:
            base = sub.get(())
            if base is not None and base[0] == "t":
                ti = None
                if field0 and typed:
                    ti = self.dest[2]
                out = {(): self.eng.project(base[1], pre, ti)}
            else:
                # payload stored under a longer prefix only (e.g. aggregate fields)
                out = {}
                for k, v in sub.items():
                    if len(k) >= 1 and k[0] == variant:
                        out[k[1:]] = v
                if field0:
                    out = {k[1:]: v for k, v in out.items() if k and k[0] == 0}
                if not out:
                    out = {(): T(("payload", self.site, i, variant))}
        return out

    def len_of_arg(self, i):
        v = self.argv(i)
        if v[0] == "r":
            return self.eng.read(self.st, v[1], v[2] + ("$len",))
        sub = self.args[i][0]
        if ("$len",) in sub:
            return sub[("$len",)]
        if v[0] == "t":
            return self.eng.project(v[1], ("$len",), None)
        return I(lin.var(self.eng.fresh("len", (0, ISIZE_MAX))))

    def range_arg(self, i):
        """-> (kind, start lin|None, end lin|None); kind None for a plain index"""
        prog = self.eng.prog
        ti = self.args[i][1]
        s = prog.types[ti]["s"] if ti is not None else ""
        rk = _range_kind(s)
        if rk is None:
            return (None, None, None)
        sub = self.args[i][0]

        def fld(j):
            v = sub.get((j,))
            if v is None:
                base = sub.get(())
                if base is not None and base[0] == "t":
                    v = self.eng.project(base[1], (j,), None)
                    return lin.var(self.eng.named(("rangefield", base[1], j), (0, ISIZE_MAX)))
                return lin.var(self.eng.fresh("rangefield", (0, ISIZE_MAX)))
            return self.eng.as_lin(v)

        if rk == "RangeFull":
            return (rk, None, None)
        if rk == "RangeFrom":
            return (rk, fld(0), None)
        if rk in ("RangeTo", "RangeToInclusive"):
            return (rk, None, fld(0))
        return (rk, fld(0), fld(1))

    def str_of(self, i):
        v = self.argv(i)
        if v[0] == "r" and v[1][0] == "K" and v[1][1][0] == "str":
            return v[1][1][1]
        return None

    def secs_of(self, i):
        sub = self.args[i][0]
        v = sub.get(("$secs",))
        if v is not None:
            return v[1]
        base = sub.get(())
        if base is not None and base[0] == "t" and base[1][0] == "const":
            m = re.search(r"secs: (\d+)_u64", base[1][1])
            if m:
                return lin.const(int(m.group(1)))
        if base is not None and base[0] == "t":
            return lin.var(self.eng.named(("secs", base[1]), (0, U64_MAX)))
        return lin.var(self.eng.fresh("secs", (0, U64_MAX)))
