"""Facts loader and program model (types, bodies, CFGs, loops, call resolution)."""
import json
import os
import re


class Body:
    def __init__(self, prog, path, j):
        self.prog = prog
        self.path = path
        self.j = j
        self.kind = j["kind"]
        self.vis = j["vis"]
        self.arg_count = j["arg_count"]
        self.locals = j["locals"]
        self.blocks = j["blocks"]
        self.span = j["span"]
        self.parent = j.get("parent")
        self.impl_of_trait = j.get("impl_of_trait")
        self.impl_self = j.get("impl_self")
        self.trait_default_of = j.get("trait_default_of")
        self.generics = j.get("generics") or []      # names of the type parameters in substitution order
        self.debug = j["debug"]
        self._cfg()

    # ------------------------------------------------------------ CFG
    def succs_of(self, bi):
        t = self.blocks[bi]["term"]
        k = t["k"]
        if k == "goto":
            return [t["t"]]
        if k == "switch":
            out = []
            for _, b in t["targets"]:
                if b not in out:
                    out.append(b)
            if t["otherwise"] not in out:
                out.append(t["otherwise"])
            return out
        if k in ("call", "assert", "drop"):
            return [t["t"]] if t.get("t") is not None else []
        return []

    def _cfg(self):
        n = len(self.blocks)
        self.succ = [self.succs_of(i) for i in range(n)]
        # drop edges into unreachable-only blocks? keep.
        self.pred = [[] for _ in range(n)]
        for i, ss in enumerate(self.succ):
            for s in ss:
                self.pred[s].append(i)
        # reachable (non-cleanup) from 0
        seen = set()
        order = []
        stack = [0]
        while stack:
            b = stack.pop()
            if b in seen:
                continue
            seen.add(b)
            order.append(b)
            for s in self.succ[b]:
                stack.append(s)
        self.reachable = seen
        # dominators (iterative)
        rpo = self._rpo()
        idx = {b: i for i, b in enumerate(rpo)}
        idom = {0: 0}
        changed = True
        while changed:
            changed = False
            for b in rpo[1:]:
                ps = [p for p in self.pred[b] if p in idom]
                if not ps:
                    continue
                new = ps[0]
                for p in ps[1:]:
                    a, c = p, new
                    while a != c:
                        while idx[a] > idx[c]:
                            a = idom[a]
                        while idx[c] > idx[a]:
                            c = idom[c]
                    new = a
                if idom.get(b) != new:
                    idom[b] = new
                    changed = True
        self.idom = idom
        self.rpo_index = idx
        self._liveness()
        # loops: back edges u->h with h dom u
        self.loops = {}  # head -> set(blocks)
        for u in seen:
            for h in self.succ[u]:
                if self.dominates(h, u):
                    body = self.loops.setdefault(h, set([h]))
                    stack = [u]
                    while stack:
                        x = stack.pop()
                        if x in body:
                            continue
                        body.add(x)
                        for p in self.pred[x]:
                            if p in seen:
                                stack.append(p)

    def _liveness(self):
        """per-block live-in sets of locals (whole-local liveness); address-taken locals always live"""
        n = len(self.blocks)
        addr = set()
        use = [set() for _ in range(n)]
        defs = [set() for _ in range(n)]

        def place_uses(p, acc):
            acc.add(p["l"])
            for pr in p["p"]:
                if isinstance(pr, dict) and "index" in pr:
                    acc.add(pr["index"])

        def op_uses(op, acc):
            if op is None:
                return
            p = op.get("copy") or op.get("move")
            if p is not None:
                place_uses(p, acc)

        def rv_uses(rv, acc):
            k = rv["k"]
            if k in ("use", "repeat", "cast"):
                op_uses(rv["op"], acc)
            elif k in ("ref", "rawptr"):
                place_uses(rv["place"], acc)
                addr.add(rv["place"]["l"])
            elif k == "bin":
                op_uses(rv["l"], acc)
                op_uses(rv["r"], acc)
            elif k == "un":
                op_uses(rv["x"], acc)
            elif k == "agg":
                for o in rv["ops"]:
                    op_uses(o, acc)
            elif k == "discr":
                place_uses(rv["place"], acc)

        for bi, blk in enumerate(self.blocks):
            u = set()
            d = set()
            # forward scan: a use counts only if not already defined in this block
            def note_use(acc):
                for l in acc:
                    if l not in d:
                        u.add(l)
            for st in blk["stmts"]:
                if st["k"] == "assign":
                    acc = set()
                    rv_uses(st["rv"], acc)
                    pl = st["place"]
                    if pl["p"]:
                        place_uses(pl, acc)
                    note_use(acc)
                    if not pl["p"]:
                        d.add(pl["l"])
                elif st["k"] == "setdiscr":
                    acc = set()
                    place_uses(st["place"], acc)
                    note_use(acc)
            t = blk["term"]
            acc = set()
            k = t["k"]
            if k == "switch":
                op_uses(t["op"], acc)
            elif k == "assert":
                op_uses(t["cond"], acc)
            elif k == "call":
                for a in t["args"]:
                    op_uses(a, acc)
                if "indirect" in t["fn"]:
                    op_uses(t["fn"]["indirect"], acc)
                if t["dest"]["p"]:
                    place_uses(t["dest"], acc)
            elif k == "return":
                acc.add(0)
            elif k == "drop":
                pass
            note_use(acc)
            if k == "call" and not t["dest"]["p"]:
                d.add(t["dest"]["l"])
            use[bi] = u
            defs[bi] = d
        live_in = [set() for _ in range(n)]
        changed = True
        while changed:
            changed = False
            for bi in range(n - 1, -1, -1):
                out = set()
                for s2 in self.succ[bi]:
                    out |= live_in[s2]
                new = use[bi] | (out - defs[bi])
                if new != live_in[bi]:
                    live_in[bi] = new
                    changed = True
        self.addr_taken = addr
        self.live_in = live_in

    def _rpo(self):
        seen = set()
        post = []

        def dfs(b):
            stack = [(b, iter(self.succ[b]))]
            seen.add(b)
            while stack:
                x, it = stack[-1]
                adv = False
                for s in it:
                    if s not in seen:
                        seen.add(s)
                        stack.append((s, iter(self.succ[s])))
                        adv = True
                        break
                if not adv:
                    post.append(x)
                    stack.pop()

        dfs(0)
        return post[::-1]

    def dominates(self, a, b):
        if b not in self.idom:
            return False
        while True:
            if a == b:
                return True
            if b == 0:
                return False
            b = self.idom[b]

    def local_ty(self, l):
        return self.locals[l]["ty"]

    def user_name(self, l):
        for d in self.debug:
            p = d.get("place")
            if p and p["l"] == l and not p["p"]:
                return d["name"]
        return None

    def loc(self, bi):
        t = self.blocks[bi]["term"]
        sp = t.get("span")
        if sp is None:
            st = self.blocks[bi]["stmts"]
            if st:
                sp = st[-1].get("span")
        if sp is None:
            sp = self.span
        return "%s:%d" % (sp["file"], sp["line"])


class Program:
    def __init__(self, path):
        with open(path) as f:
            j = json.load(f)
        self.j = j
        self.crate = j["crate"]
        self.crate_type = j["crate_type"]
        self.types = j["types"]
        self.adts = j["adts"]
        self.consts = j["consts"]
        self.statics = j["statics"]
        self.impls = j["impls"]
        self.traits = j["traits"]
        self.ext_fns = j["ext_fns"]
        self.unsafe_fns = j["unsafe_fns"]
        self.bodies = {p: Body(self, p, b) for p, b in j["bodies"].items()}
        # trait item -> [(self_ty_idx, impl def)]
        self.trait_impls = {}
        for im in self.impls:
            if not im.get("trait"):
                continue
            for it in im["items"]:
                ti = it.get("trait_item")
                if ti:
                    self.trait_impls.setdefault(ti, []).append((im["self_ty"], it["def"]))
        # variant constructors usable as fn values
        self.ctor = {}
        for ap, a in self.adts.items():
            for vi, v in enumerate(a["variants"]):
                self.ctor[ap + "::" + v["name"]] = (ap, vi)

    # ------------------------------------------------------------ types
    def ty(self, i):
        return self.types[i]

    def ty_str(self, i):
        return self.types[i]["s"]

    def peel_refs(self, i):
        t = self.types[i]
        while t["k"] in ("ref", "ptr"):
            i = t["inner"]
            t = self.types[i]
        return i

    def is_int(self, i):
        return self.types[i]["k"] == "int"

    def int_range(self, i):
        t = self.types[i]
        k = t["k"]
        if k == "bool":
            return (0, 1)
        if k == "char":
            return (0, 0x10FFFF)
        if k != "int":
            return None
        bits = t["bits"]
        if t["signed"]:
            return (-(1 << (bits - 1)), (1 << (bits - 1)) - 1)
        return (0, (1 << bits) - 1)

    def adt_of(self, i):
        t = self.types[i]
        if t["k"] == "adt":
            return t["path"]
        return None

    def variant_discr(self, adt_path, vi):
        a = self.adts.get(adt_path)
        if a is None:
            return vi  # std enums used here (Option, Result, ControlFlow, Ordering-like): index == value
        d = a["variants"][vi].get("discr")
        return vi if d is None else int(d)

    def variant_by_discr(self, adt_path, dv):
        a = self.adts.get(adt_path)
        if a is None:
            return dv
        for vi, v in enumerate(a["variants"]):
            d = v.get("discr")
            if (vi if d is None else int(d)) == dv:
                return vi
        return None

    def field_names(self, adt_path, vi=0):
        a = self.adts.get(adt_path)
        if a is None:
            return None
        return [f["name"] for f in a["variants"][vi]["fields"]]

    def field_index(self, adt_path, name, vi=0):
        names = self.field_names(adt_path, vi)
        if names is None or name not in names:
            return None
        return names.index(name)

    def place_ty(self, body, place):
        """type index of a MIR place (None if unknown)."""
        ti = body.local_ty(place["l"])
        for pr in place["p"]:
            if ti is None:
                return None
            t = self.types[ti]
            if pr == "deref":
                if t["k"] in ("ref", "ptr"):
                    ti = t["inner"]
                elif t["k"] == "adt" and t["path"] == "std::boxed::Box" and t["args"]:
                    ti = t["args"][0]
                else:
                    ti = None
            elif "f" in pr:
                ti = pr["ty"]
            elif "downcast" in pr:
                pass
            elif "index" in pr or "cidx" in pr:
                if t["k"] in ("slice", "array"):
                    ti = t["inner"]
                else:
                    ti = None
            else:
                ti = None
        return ti

    # ------------------------------------------------------------ calls
    def transparent_adt(self, path):
        """a crate-local struct with exactly one field of integer type (`struct BlockNum(u16)`): represented like the integer
        itself, so that wrapping a counter in a newtype changes nothing for the interpreter or the rules"""
        cache = getattr(self, "_transparent", None)
        if cache is None:
            cache = self._transparent = {}
        r = cache.get(path)
        if r is None:
            a = self.adts.get(path)
            r = False
            if a is not None and a.get("kind") == "struct" and len(a["variants"]) == 1 and len(a["variants"][0]["fields"]) == 1:
                ft = self.types[a["variants"][0]["fields"][0]["ty"]]
                crate = next(iter(self.bodies)).split("::", 1)[0] if self.bodies else ""
                r = ft["k"] == "int" and path.startswith(crate + "::")
            cache[path] = r
        return r

    def callee_targets(self, fn, binding=None):
        """Resolve a call's `fn` record to a list of local body paths (possibly empty) and a
        canonical callee name for modelling. binding: {param name -> type idx} of the inlining context.
        Returns (name, [local bodies], kind) where kind in {'direct','dyn','ext','indirect','ctor'}."""
        if "indirect" in fn:
            return ("<indirect>", [], "indirect")
        name = fn.get("resolved") or fn["def"]
        if fn.get("resolved_local") and name in self.bodies:
            return (name, [name], "direct")
        if fn.get("resolved") and not fn.get("resolved_local"):
            return (name, [], "ext")
        d = fn["def"]
        if fn.get("local"):
            if d in self.bodies and not fn.get("trait"):
                return (d, [d], "direct")
            if d in self.ctor:
                return (d, [], "ctor")
            if fn.get("trait"):
                # trait method on a type the build could not resolve: try binding, else all impls
                st = fn.get("self_ty")
                cands = self.trait_impls.get(d, [])
                if st is not None and binding:
                    t = self.types[st]
                    if t["k"] == "param" and t["name"] in binding:
                        st = binding[t["name"]]
                if st is not None:
                    sts = self.types[st]["s"]
                    exact = [defp for (sty, defp) in cands if self.types[sty]["s"] == sts]
                    if exact:
                        return (d, exact, "direct")
                    if self.types[st]["k"] not in ("param", "dyn") and d in self.bodies:
                        # concrete type without own impl item: trait default body
                        return (d, [d], "direct")
                out = [defp for (_, defp) in cands]
                if d in self.bodies:
                    out.append(d)
                return (d, out, "dyn")
        if fn.get("trait") and binding and fn.get("self_ty") is not None:
            # std trait method called on a type parameter of the enclosing generic helper (`source: &mut impl Read`): with the
            # parameter bound at the inlined call this is the impl of the concrete type, named like a directly resolved call
            t = self.types[fn["self_ty"]]
            if t["k"] == "param" and t["name"] in binding:
                ct = self.types[binding[t["name"]]]
                if ct["k"] not in ("param", "dyn", "closure", "fndef", "fnptr"):     # (callables keep the Fn* trait name: they are invoked by value)
                    return ("<%s as %s>::%s" % (ct["s"], fn["trait"], d.rsplit("::", 1)[-1]), [], "ext")
        return (d, [], "ext")


def strip_generics(name):
    """std::vec::Vec::<T>::push -> std::vec::Vec::push ; keeps `<impl ...>` and `<X as Y>` segments."""
    out = []
    i = 0
    n = len(name)
    while i < n:
        if name.startswith("::<", i):
            # find the matching '>'
            j = i + 3
            depth = 1
            while j < n and depth:
                c = name[j]
                if c == "<":
                    depth += 1
                elif c == ">" and name[j - 1] != "-":
                    depth -= 1
                j += 1
            inner = name[i + 3:j - 1]
            # qualified-self segments stay: `<impl ...>` and `<Type as Trait>`
            d = 0
            has_as = False
            for k, ch in enumerate(inner):
                if ch == "<":
                    d += 1
                elif ch == ">" and inner[k - 1] != "-":
                    d -= 1
                elif d == 0 and inner.startswith(" as ", k):
                    has_as = True
                    break
            if inner.startswith("impl ") or has_as:
                out.append(name[i:j])
            i = j
            continue
        out.append(name[i])
        i += 1
    return "".join(out)


def load_all(facts_dir):
    out = {}
    for fn in sorted(os.listdir(facts_dir)):
        if fn.endswith(".json"):
            out[fn[:-5]] = Program(os.path.join(facts_dir, fn))
    return out
