"""Ghost-variable monitors (typestate properties decided by the abstract interpreter).

A monitor keeps a small integer in the abstract store (root ('G',), path (name,)), updates it at
call events / switch edges, and raises proof obligations ('ghost:<name>') at the events where the
typestate must hold. Because the ghost lives in the store, loops are handled by the same
invariant inference as program variables, so an obligation discharged at a loop-carried event holds
for every number of iterations. Monitors are defined over RESOLVED callees, packet variants and
value provenance only - never over private function names.
"""
from . import lin
from .engine import I, ICONST, T, const_of
from .facts import strip_generics

G = ("G",)

PACKET = "tftpd::packet::Packet"
WINDOW = "tftpd::window::Window"
SOCK_SEND = ("tftpd::socket::Socket::send", "tftpd::socket::Socket::send_to")
SOCK_RECV = ("tftpd::socket::Socket::recv_with_size", "tftpd::socket::Socket::recv_from_with_size")
PUSHES = ("std::collections::VecDeque::push_back", "std::collections::VecDeque::push_front")


def gread(eng, st, name):
    d = st.store.get(G)
    if d is not None and (name,) in d:
        return d[(name,)]
    return ICONST(0)


def gwrite(eng, st, name, v, node=None):
    eng.write(st, G, (name,), v, None)


def packet_variant(eng, args, i):
    """constant variant name of the Packet a reference argument points to (None if unknown)"""
    sub = args[i][0]
    v = sub.get(())
    if v is None or v[0] != "r":
        return None
    st = None
    return v


def variant_of_pointee(eng, st, v):
    if v is None or v[0] != "r":
        return None
    d = eng.read(st, v[1], v[2] + ("$discr",))
    c = const_of(d)
    if c is None:
        return None
    prog = eng.prog
    a = prog.adts.get(PACKET)
    if a is None:
        return None
    vi = prog.variant_by_discr(PACKET, c)
    return a["variants"][vi]["name"] if vi is not None else None


def window_prefix(eng, v):
    """for a reference into a Window object: the path of the Window value itself (longest prefix whose static type is
    Window), else None"""
    if v is None or v[0] != "r" or not v[2]:
        return None
    for n in range(len(v[2]) - 1, -1, -1):
        owner_ti = eng.static_type(v[1], v[2][:n])
        if owner_ti is not None:
            t = eng.prog.types[owner_ti]
            if t["k"] == "adt" and t["path"] == WINDOW:
                return tuple(v[2][:n])
    return None


def ref_chain(eng, st, v, limit=5):
    """v, what it points to if that is a reference again, and so on (for operands like `&&Path`)"""
    out = []
    while v is not None and isinstance(v, tuple) and v and v[0] == "r" and len(out) < limit:
        out.append(v)
        if "E" in v[2]:
            break
        nxt = st.store.get(v[1], {}).get(tuple(v[2]))
        v = nxt
    return out


def is_window_queue(eng, v):
    """reference to a VecDeque that lives inside a Window value (possibly inside a private helper struct of it)"""
    return window_prefix(eng, v) is not None


def install(eng, world=None):
    """install all monitors on an engine (before run)"""
    prog = eng.prog
    layout = [None]

    def server_path(name):
        if layout[0] is None:
            layout[0] = world.server_layout() if world is not None else {}
        return layout[0].get(name)

    wlayout = [None]

    def window_path(name):
        if wlayout[0] is None:
            wlayout[0] = world.window_layout() if world is not None else {}
        return wlayout[0].get(name)

    def in_send_side(fr):
        r = fr.region
        if r.startswith("thread:"):
            clos = r[len("thread:"):]
            b = prog.bodies.get(clos)
            return b is not None and b.parent is not None and b.parent.endswith("::send")
        return r.endswith("window::Window::fill")

    def in_receive_side(fr):
        r = fr.region
        if r.startswith("thread:"):
            clos = r[len("thread:"):]
            b = prog.bodies.get(clos)
            return b is not None and b.parent is not None and b.parent.endswith("::receive")
        return False

    def call_hook(eng, st, fr, bb, base, args, ev, t):
        # ---- dirty: accepted blocks not yet written to the file (C02.b, C13.b)
        if base in PUSHES and args and is_window_queue(eng, args[0][0].get(())):
            if in_receive_side(fr):
                gwrite(eng, st, "dirty", ICONST(1))
            if in_send_side(fr):
                # ---- eof: nothing is pushed after the short chunk (C07.c, C18)
                e = gread(eng, st, "eof")
                ok = e[0] == "i" and st.ctx.entails_eq(e[1], lin.const(0))
                eng.oblige(st, fr, bb, "ghost:eof", "no chunk is queued after the short (final) chunk", ok,
                           "" if ok else "a push_back is reachable after a chunk shorter than chunk_size was queued")
                q = args[0][0].get(())
                ln = args[1][0].get(("$len",))
                wp_, ck_ = window_prefix(eng, q), window_path("chunk_size")
                cs = eng.read(st, q[1], wp_ + tuple(ck_), eng.static_type(q[1], wp_ + tuple(ck_))) if (wp_ is not None and ck_ is not None) else None
                if ln is not None and ln[0] == "i" and cs is not None and cs[0] == "i":
                    if st.ctx.entails(lin.lt(ln[1], cs[1])):
                        gwrite(eng, st, "eof", ICONST(1))
                    elif st.ctx.entails(lin.le(cs[1], ln[1])):
                        pass
                    elif ok and st.ctx.entails(lin.le(ln[1], cs[1])):
                        # not decided yet (the chunk is queued first and its length tested afterwards): the ghost becomes a 0/1
                        # unknown tied to the length,  eof = 1  <=>  len < chunk_size, so that the later test settles it
                        es = eng.fresh("eof", (0, 1))
                        ev_ = lin.var(es)
                        d_ = lin.sub(cs[1], ln[1])                       # >= 0
                        hi = st.ctx.bounds(cs[1])[1]
                        big = hi if hi is not None and hi < (1 << 40) else (1 << 40)
                        st.ctx.add(lin.le(ev_, d_))                       # eof = 1  =>  chunk_size - len >= 1
                        st.ctx.add(lin.le(d_, lin.scale(ev_, big)))       # eof = 0  =>  chunk_size - len <= 0
                        gwrite(eng, st, "eof", I(ev_))
                    else:
                        gwrite(eng, st, "eof", I(lin.var(eng.fresh("eof", (0, 1)))))
                else:
                    gwrite(eng, st, "eof", I(lin.var(eng.fresh("eof", (0, 1)))))
        elif base == "std::collections::VecDeque::clear" and args and is_window_queue(eng, args[0][0].get(())):
            gwrite(eng, st, "dirty", ICONST(0))
        elif base in SOCK_SEND and len(args) > 1 and fr.region.startswith("thread:"):
            vn = variant_of_pointee(eng, st, args[1][0].get(()))
            if vn in ("Ack", None) and in_receive_side(fr):
                d = gread(eng, st, "dirty")
                ok = d[0] == "i" and st.ctx.entails_eq(d[1], lin.const(0))
                eng.oblige(st, fr, bb, "ghost:dirty", "ACK is sent only when every accepted block has been written to the file", ok,
                           "" if ok else "an acknowledgement can be sent while accepted blocks are still only in the window buffer")
        elif base in SOCK_RECV and fr.region.startswith("thread:"):
            f = gread(eng, st, "final")
            ok = f[0] == "i" and st.ctx.entails_eq(f[1], lin.const(0))
            eng.oblige(st, fr, bb, "ghost:final", "no receive after the final (short) block has been accepted", ok,
                       "" if ok else "the receive loop can wait for another datagram after a block shorter than blksize was accepted")

    def edge_hook(eng, st, fr, bb, target, cond):
        # ---- final: a comparison established  len(data of a received packet) < something  (the short-block test)
        if not in_receive_side(fr) or cond[0] != "bool":
            return
        b, truth = cond[1], cond[2]
        if b[0] != "cmp":
            return
        op, a, c = b[1], b[2], b[3]
        if not truth:
            op = {"Lt": "Ge", "Le": "Gt", "Gt": "Le", "Ge": "Lt", "Eq": "Ne", "Ne": "Eq"}[op]
        small = None
        if op == "Lt":
            small = a
        elif op == "Gt":
            small = c
        if small is None:
            return
        for s_, _ in small[1]:
            n = eng.sym_names[s_]
            if isinstance(n, tuple) and n and n[0] == "len" and received_payload(n):
                gwrite(eng, st, "final", ICONST(1))
                return

    def received_payload(n):
        """symbol ('len', term, path): term is the result of a socket receive"""
        t = n[1]
        return isinstance(t, tuple) and t and t[0] == "app" and isinstance(t[1], str) and strip_generics(t[1]) in SOCK_RECV

    # ---------------------------------------------------------------- listener: path validation gate (C03, C06)
    GUARDED_PREFIX = ("std::fs::", "std::path::Path::exists", "std::path::Path::metadata", "std::path::Path::is_file", "std::path::Path::is_dir",
                      "std::path::Path::read_dir", "std::path::Path::canonicalize", "std::path::Path::symlink_metadata", "std::path::Path::try_exists")
    GUARDED_EXACT = ("std::thread::spawn", "std::net::UdpSocket::bind", "std::net::UdpSocket::try_clone", "std::net::UdpSocket::connect",
                     "std::collections::HashMap::insert", "tftpd::socket::Socket::send")
    PURE_FS = ("std::fs::Metadata::len",)
    ERRORCODE = "tftpd::packet::ErrorCode"

    SERVER = "tftpd::server::Server"
    sfi = {f["name"]: i for i, f in enumerate(prog.adts[SERVER]["variants"][0]["fields"])} if SERVER in prog.adts else {}
    pk = prog.adts.get(PACKET)
    kind_of_variant = {}
    if pk is not None:
        for i, v in enumerate(pk["variants"]):
            kind_of_variant[i] = v["name"]

    def find_variant(v, depth=0):
        """packet variant index mentioned in a value's provenance: a path element ('v', i) right after the
        Ok payload of the decode result"""
        if depth > 12:
            return None
        if isinstance(v, tuple):
            for i, x in enumerate(v):
                if isinstance(x, tuple) and len(x) >= 3 and x[:2] == (("v", 0), 0) and isinstance(x[2], tuple) and len(x[2]) == 2 and x[2][0] == "v":
                    return x[2][1]
                r = find_variant(x, depth + 1) if isinstance(x, tuple) else None
                if r is not None:
                    return r
        return None

    def server_field(eng, st, fr, name):
        pth = server_path(name)
        if pth is None:
            return None
        root = ("P", ("L", fr.id[:1], 1), ())
        return eng.read(st, root, tuple(pth), eng.static_type(root, tuple(pth)))

    def listener_hook(eng, st, fr, bb, base, args, ev, t):
        if fr.region != "listener":
            return
        # ---- request kind: the variant of the decoded Packet held by the listener's own frame
        if len(fr.id) == 1:
            efid = fr.id
            body0 = eng.frame_bodies.get(efid)
            found = set()
            for root, d_ in st.store.items():
                if root[0] == "L" and root[1] == efid and isinstance(root[2], int) and body0 is not None and root[2] < len(body0.locals):
                    tt = prog.types[body0.local_ty(root[2])]
                    if tt["k"] == "adt" and tt["path"] == PACKET:
                        dv = d_.get(("$discr",))
                        c_ = const_of(dv) if dv is not None else None
                        if c_ is not None:
                            found.add(prog.variant_by_discr(PACKET, c_))
            if len(found) == 1:
                vi = list(found)[0]
                if vi is not None:
                    gwrite(eng, st, "kind", ICONST(vi + 1))
                    # length of the request's option list (field `options` of the decoded packet)
                    names_ = [f["name"] for f in pk["variants"][vi]["fields"]]
                    if "options" in names_:
                        oi = names_.index("options")
                        for root, d_ in st.store.items():
                            if root[0] == "L" and root[1] == efid and isinstance(root[2], int) and root[2] < len(body0.locals):
                                tt = prog.types[body0.local_ty(root[2])]
                                if tt["k"] == "adt" and tt["path"] == PACKET and d_.get(("$discr",)) is not None:
                                    ln_ = eng.read(st, root, (("v", vi), oi, "$len"))
                                    if ln_[0] == "i":
                                        gwrite(eng, st, "optlen", ln_)
                                    break
        if base == "std::collections::HashMap::insert":
            sp_ = server_field(eng, st, fr, "single_port")
            ok_ = sp_ is not None and sp_[0] == "i" and st.ctx.entails(lin.le(lin.const(1), sp_[1]))
            eng.oblige(st, fr, bb, "ghost:singleport", "client registration only in single-port mode", ok_,
                       "" if ok_ else "a client is registered in the routing table although the server may be in multi-port mode")
        if (base.startswith(GUARDED_PREFIX) and base not in PURE_FS) or base in GUARDED_EXACT:
            # ---- access policy (C06): what must be known before this effect, per request kind
            if base not in ("std::path::Path::exists",):
                kd = gread_opt(st, "kind")
                kn = kind_of_variant.get(const_of(kd) - 1) if kd is not None and const_of(kd) is not None else None
                ex = gread_opt(st, "v_exists")
                okp = False
                why = "request kind unknown"
                if kn == "Wrq":
                    ro = server_field(eng, st, fr, "read_only")
                    ow = server_field(eng, st, fr, "overwrite")
                    ro0 = ro is not None and ro[0] == "i" and st.ctx.entails_eq(ro[1], lin.const(0))
                    nx = ex is not None and ex[0] == "i" and st.ctx.entails_eq(ex[1], lin.const(0))
                    owt = ow is not None and ow[0] == "i" and st.ctx.entails(lin.le(lin.const(1), ow[1]))
                    okp = ro0 and (nx or owt)
                    why = ("server may be read-only" if not ro0 else "target may exist while overwrite is off")
                elif kn == "Rrq":
                    okp = ex is not None and ex[0] == "i" and st.ctx.entails(lin.le(lin.const(1), ex[1]))
                    why = "file may not exist"
                eng.oblige(st, fr, bb, "ghost:policy", "%s only when the access policy allows the request" % base, okp,
                           "" if okp else "%s is reachable although the %s" % (base, why))
                if base == "std::thread::spawn":
                    gwrite(eng, st, "spawned", ICONST(1))
        if (base.startswith(GUARDED_PREFIX) and base not in PURE_FS) or base in GUARDED_EXACT:
            vc = gread_opt(st, "v_contains")
            va = gread_opt(st, "v_any")
            ok = vc is not None and va is not None and vc[0] == "i" and va[0] == "i" and \
                st.ctx.entails_eq(vc[1], lin.const(0)) and st.ctx.entails(lin.le(lin.const(1), va[1]))
            eng.oblige(st, fr, bb, "ghost:validated", "%s only after a successful path validation" % base, ok,
                       "" if ok else "%s is reachable on a path where the request's path has not passed  !contains(\"..\") && ancestors().any(== root)" % base)
        # ---- handshake reply (C09.a): OACK iff options, ACK 0 only for an option-less write
        if base in SOCK_SEND and len(args) > 1:
            v = args[1][0].get(())
            vn = variant_of_pointee(eng, st, v)
            ol = gread_opt(st, "optlen")
            kd = gread_opt(st, "kind")
            kn = kind_of_variant.get(const_of(kd) - 1) if kd is not None and const_of(kd) is not None else None
            if vn == "Oack":
                a_ = prog.adts.get(PACKET)
                vi = [i for i, x in enumerate(a_["variants"]) if x["name"] == "Oack"][0]
                ln_ = eng.read(st, v[1], v[2] + (("v", vi), 0, "$len"))
                ok = ol is not None and ol[0] == "i" and st.ctx.entails(lin.le(lin.const(1), ol[1])) and ln_[0] == "i" and st.ctx.entails_eq(ln_[1], ol[1])
                eng.oblige(st, fr, bb, "ghost:handshake", "Oack: sent only for a non-empty option list and echoes that list", ok,
                           "" if ok else "an OACK can be sent for a request without recognised options, or does not carry the request's option list")
            elif vn == "Ack":
                a_ = prog.adts.get(PACKET)
                vi = [i for i, x in enumerate(a_["variants"]) if x["name"] == "Ack"][0]
                nv = eng.read(st, v[1], v[2] + (("v", vi), 0))
                ok = ol is not None and ol[0] == "i" and st.ctx.entails_eq(ol[1], lin.const(0)) and kn == "Wrq" and nv[0] == "i" and nv[1] == (0, ())
                eng.oblige(st, fr, bb, "ghost:handshake", "Ack: ACK 0 only for a write request without options", ok,
                           "" if ok else "ACK is sent as handshake reply although the request has options, is not a write request, or the number is not 0")
        # reply sent on the listening socket: remember the error code (for the rejection clauses)
        if base.endswith("socket::Socket>::send_to") or base in SOCK_SEND:
            v = args[1][0].get(()) if len(args) > 1 else None
            vn = variant_of_pointee(eng, st, v)
            code = 0
            if vn == "Error" and v is not None and v[0] == "r":
                a = prog.adts.get(PACKET)
                vi = [i for i, x in enumerate(a["variants"]) if x["name"] == "Error"][0]
                names = [f["name"] for f in a["variants"][vi]["fields"]]
                ci = names.index("code") if "code" in names else 0
                cd = eng.read(st, v[1], v[2] + (("v", vi), ci, "$discr"))
                c = const_of(cd)
                code = 100 + c if c is not None else 99
            elif vn is not None:
                code = 50
            gwrite(eng, st, "reply", ICONST(code))

    def listener_post(eng, st, fr, bb, base, args, ev, t):
        if fr.region.startswith("thread:"):
            return
        if base == "core::str::<impl str>::contains":
            pat = args[1][0].get(()) if len(args) > 1 else None
            if isinstance(pat, tuple) and pat[0] == "r" and pat[1] == ("K", ("str", "..")):
                root, path, ti = eng.resolve(st, fr, t["dest"])
                gwrite(eng, st, "v_contains", eng.read(st, root, path, ti))
        elif base.endswith("::eq") and "PartialEq" in base and len(args) >= 2:
            # ---- v_any: `ancestor == X` where ancestor is handed out by path.ancestors(): the ancestor test of the validator,
            # whether written with Iterator::any or as an explicit loop. The compared operands are logged for the rules.
            chains = [ref_chain(eng, st, a[0].get(())) for a in args[:2]]
            for i in (0, 1):
                el = [r for r in chains[i] if r[1][0] == "P" and isinstance(r[1][1], tuple) and r[1][1] and r[1][1][0] == "elem"
                      and len(r[1][1]) >= 5 and r[1][1][4] == "ancestors"]
                if el:
                    root, path, ti = eng.resolve(st, fr, t["dest"])
                    res = eng.read(st, root, path, ti)
                    gwrite(eng, st, "v_any", res)
                    if eng.record:
                        ovr = el[0][1][1][3]
                        eng.anc_eq_log.append({"node": (fr.id, bb), "ctx": fr.id, "loc": fr.body.loc(bb), "elem": el[0][1][1],
                                               "path_value": eng.read(st, ovr[0], ovr[1]) if ovr is not None else None, "path_place": ovr,
                                               "other": chains[1 - i], "result": res})
                    break
        elif base == "std::sync::mpsc::Sender::send" and fr.region == "listener":
            root, path, ti = eng.resolve(st, fr, t["dest"])
            gwrite(eng, st, "routed", I(lin.add(eng.read(st, root, path + ("$discr",))[1], lin.const(1))))
        elif base in ("std::path::Path::exists", "std::path::Path::try_exists", "std::path::Path::is_file"):
            root, path, ti = eng.resolve(st, fr, t["dest"])
            gwrite(eng, st, "v_exists", eng.read(st, root, path, ti))

    def gread_opt(st, name):
        d = st.store.get(G)
        if d is not None and (name,) in d:
            return d[(name,)]
        return None

    def listener_return(eng, st, fr, bb, callee, sub):
        # ---- herr: a crate function called (at any depth) from the listen loop returned Err in this iteration
        if fr.region != "listener":
            return
        d = sub.get(("$discr",))
        ts = prog.types[callee.local_ty(0)]["s"]
        if d is not None and "result::Result<" in ts and const_of(d) == 1:
            gwrite(eng, st, "herr", ICONST(1))

    eng.return_hooks.append(listener_return)
    eng.call_hooks.append(call_hook)
    eng.call_hooks.append(listener_hook)
    eng.post_call_hooks.append(listener_post)
    eng.edge_hooks.append(edge_hook)
