"""Symbolic abstract interpreter over the inlined supergraph (analyses B, C, D of DESIGN.md).

It never runs rs-tftpd code: it interprets the MIR facts abstractly.
  * store: canonical place (root, path) -> abstract value (integer as linear expression over
    symbols, reference to a place, symbolic bool, opaque term)
  * path condition: linear inequalities/disequalities over integer symbols (lin.Ctx)
  * crate-local calls are inlined (frames), std calls go through stdmodel
  * loops: Houdini-style inference of an inductive invariant over a template candidate set
  * records: call events (with argument values), place reads/writes, obligations (asserts and
    modelled std preconditions) with proven / not proven, explored supergraph nodes and edges.
"""
import time
import sys
from . import lin
from .facts import strip_generics

sys.setrecursionlimit(20000)

ISIZE_MAX = (1 << 63) - 1


# ----------------------------------------------------------------------------- values
def I(e, mod=None):
    return ("i", e, mod)


def ICONST(n):
    return ("i", lin.const(n), None)


def T(term):
    return ("t", term)


def is_int(v):
    return v[0] == "i"


def const_of(v):
    if v[0] == "i" and lin.is_const(v[1]):
        return v[1][0]
    return None


class Obligation:
    __slots__ = ("kind", "ctx", "body", "bb", "loc", "detail", "proven", "region", "residual", "key", "states", "value")

    def __init__(self, kind, ctx, body, bb, loc, detail, proven, region, residual=""):
        self.kind = kind
        self.ctx = ctx
        self.body = body
        self.bb = bb
        self.loc = loc
        self.detail = detail
        self.proven = proven
        self.region = region
        self.residual = residual
        self.key = "%s %s %s" % (kind, body, detail)
        self.states = []   # path conditions of the states in which it could not be discharged
        self.value = None


class Event:
    __slots__ = ("idx", "ctx", "body", "bb", "loc", "callee", "kind", "args", "argsnap", "dest", "region",
                 "inlined", "fn", "ret", "node", "expanded", "gargs", "cond", "anode")

    def __repr__(self):
        return "Event(%s @%s %s)" % (self.callee, self.loc, self.region)


class BudgetExceeded(Exception):
    """the exploration did not finish within its budget: nothing can be concluded from it"""


class State:
    __slots__ = ("store", "ctx", "writes", "reads", "assumed", "aids", "consC")

    def __init__(self, ranges):
        self.store = {}
        self.ctx = lin.Ctx(ranges)
        self.writes = None
        self.reads = None
        self.assumed = ()
        self.aids = ()    # nodes of the abstract reachability graph this state continues from
        self.consC = {}   # entry values of the conserved sums / differences of the loops being analysed

    def fork(self):
        s = State.__new__(State)
        s.store = {r: dict(d) for r, d in self.store.items()}
        s.ctx = self.ctx.copy()
        s.writes = self.writes
        s.reads = self.reads
        s.assumed = self.assumed
        s.aids = self.aids
        s.consC = self.consC
        return s


class Frame:
    __slots__ = ("id", "body", "binding", "depth", "region")

    def __init__(self, fid, body, binding, depth, region):
        self.id = fid
        self.body = body
        self.binding = binding
        self.depth = depth
        self.region = region


class Engine:
    def __init__(self, prog, models=None, max_depth=12, opts=None):
        self.prog = prog
        self.ranges = {}
        self.symctr = 0
        self.sym_ids = {}
        self.sym_names = []
        self.loop_cache = {}
        self.loop_stack = []
        self.body_sets = []
        self.call_hooks = []   # f(eng, st, fr, bb, base, args, ev, t) before a non-inlined call is modelled
        self.post_call_hooks = []  # f(eng, st, fr, bb, base, args, ev, t) on each outcome state after the call
        self.edge_hooks = []   # f(eng, st, fr, bb, target, cond) after a switch edge has been taken
        self.inlined_nodes = set()
        self.back_via_call = set()
        self.edge_conds = {}
        self.arg_conds = {}       # (ARG node of the switch, target program node) -> [cond]: edge_conds per exploring state
        self.loop_backs = {}
        self.loop_heads = {}
        self.mem_writes = []
        self.luf = {}
        self.sym_consts = {}
        self.links = set()     # pairs of symbols that were compared / derived from one another (relevance only)
        self.thread_entries = {}
        self.thread_pre = {}
        self.frame_bodies = {}
        self.body_consts = self._collect_body_consts()
        lin.NAMER[0] = self.sym_name
        self.models = models
        self.max_depth = max_depth
        self.opts = opts or {}
        self.record = True
        self.events = []
        self.obligations = {}
        self.nodes = {}      # (frame_id, bb) -> visit count
        # abstract reachability graph: one node per (program node, state that executed it); path-sensitive
        # exactly as far as the exploration is (states are only merged when they differ in drop flags)
        self.anc_eq_log = []   # comparisons `ancestor == X` with ancestor from Path::ancestors (monitors.py)
        self.drain_log = []    # (node, start, end) of every VecDeque/Vec drain
        self.index_log = []    # (node, frame, range kind, start, end) of every range-indexing of a slice
        self.steps = 0
        self.deadline = None         # wall-clock limit of the current exploration (set by World)
        self.max_join_states = 2500  # more states than this at one join point = state explosion, give up
        self.iter_summaries = {}
        self.return_hooks = []   # called when an inlined crate-local call returns: (eng, state, caller frame, bb, callee body, returned subtree)
        self.iter_loops = {}   # synthetic loops of closure-taking iterator adapters: (callable frame, 0) -> info
        self.discr_src = {}    # temp holding a discriminant -> place whose discriminant it is
        self.switch_src = {}   # switch node -> places whose discriminant the switch tests
        self.layout_log = []  # (node, frame id, root, path, segments) for every byte-vector construction step
        self.arg_proj = []   # arg node id -> (frame_id, bb)
        self.arg_edges = set()
        self.edges = set()   # ((frame_id, bb), (frame_id, bb))
        self.writes_log = []  # (node, (root, path), value)
        self.reads_log = []
        self.spawned = []
        self.warnings = []
        self.unmodelled = {}
        self.loop_invariants = {}
        self.no_inline = set(self.opts.get("no_inline", ()))
        self.consts = self._collect_consts()
        self.fm_calls = 0
        self.switch_log = []
        self.returns = {}  # frame id -> list of states' return values (record mode)

    # ------------------------------------------------------------------ symbols
    def fresh(self, prefix, rng=None):
        self.symctr += 1
        return self.named("%s#%d" % (prefix, self.symctr), rng)

    def named(self, name, rng=None):
        """intern a symbol name -> small integer id (fast hashing / ordering in the linear domain)"""
        i = self.sym_ids.get(name)
        if i is None:
            i = len(self.sym_names)
            self.sym_ids[name] = i
            self.sym_names.append(name)
            if rng is not None:
                self.ranges[i] = rng
        elif rng is not None and i not in self.ranges:
            self.ranges[i] = rng
        return i

    def sym_name(self, i):
        n = self.sym_names[i] if isinstance(i, int) and i < len(self.sym_names) else i
        return short_name(n)

    def _collect_body_consts(self):
        """per function: integer constants it compares against / switches on (thresholds for loop invariants)"""
        out = {}

        def opc(op, ks):
            c = op.get("const")
            if c is not None and c.get("kind") == "int":
                v = int(c["val"])
                if abs(v) < (1 << 40):
                    ks.add(v)

        for p, b in self.prog.bodies.items():
            ks = set()
            for blk in b.blocks:
                for st in blk["stmts"]:
                    if st["k"] == "assign" and st["rv"]["k"] == "bin" and st["rv"]["op"] in ("Lt", "Le", "Gt", "Ge", "Eq", "Ne"):
                        opc(st["rv"]["l"], ks)
                        opc(st["rv"]["r"], ks)
                t = blk["term"]
                if t["k"] == "switch":
                    op = t["op"]
                    pl = op.get("copy") or op.get("move")
                    if pl is not None:
                        ti = self.prog.place_ty(b, pl)
                        if ti is not None and self.prog.types[ti]["k"] == "int":
                            for v, _ in t["targets"]:
                                if abs(int(v)) < (1 << 40):
                                    ks.add(int(v))
            out[p] = ks
        return out

    def _collect_consts(self):
        """template constants for loop invariants: constants compared against in the crate, crate consts"""
        ks = set([0, 1])
        for p, c in self.prog.consts.items():
            v = c.get("val")
            if v is not None:
                ks.add(int(v))

        def opc(op):
            c = op.get("const")
            if c is not None and c.get("kind") == "int":
                v = int(c["val"])
                if abs(v) < (1 << 40):
                    ks.add(v)

        for b in self.prog.bodies.values():
            for blk in b.blocks:
                for st in blk["stmts"]:
                    if st["k"] == "assign" and st["rv"]["k"] == "bin" and st["rv"]["op"] in ("Lt", "Le", "Gt", "Ge", "Eq", "Ne"):
                        opc(st["rv"]["l"])
                        opc(st["rv"]["r"])
        out = set()
        for k in ks:
            out.update((k - 1, k, k + 1))
        return sorted(out)

    # ------------------------------------------------------------------ store access
    def type_range(self, ti):
        if ti is None:
            return None
        return self.prog.int_range(ti)

    def lazy_init(self, root, path, ti):
        """deterministic unknown value for an unwritten place"""
        prog = self.prog
        if root == ("G",):
            return ICONST(0)
        if ti is None:
            ti = self.static_type(root, path)
        if path and path[-1] == "$len":
            return I(lin.var(self.named(("len", root, path[:-1]), (0, ISIZE_MAX))))
        if path and path[-1] == "$discr":
            return I(lin.var(self.named(("discr", root, path[:-1]), (0, 1 << 16))))
        if ti is not None:
            t = prog.types[ti]
            k = t["k"]
            if k in ("int", "bool", "char"):
                return I(lin.var(self.named(("init", root, path), prog.int_range(ti))))
            if k in ("ref", "ptr"):
                return ("r", ("P", root, path), (), t.get("mut", False))
        return T(("init", root, path))

    def read(self, st, root, path, ti=None):
        if "E" in path:
            # summary element of a container: every read is an arbitrary element (weak semantics)
            if st.reads is not None:
                st.reads.add((root, path))
            return self.read_elem(root, path, ti)
        d = st.store.get(root)
        if d is not None:
            v = d.get(path)
            if v is not None:
                if st.reads is not None:
                    st.reads.add((root, path))
                return v
            # opaque ancestor?
            for n in range(len(path) - 1, -1, -1):
                a = d.get(path[:n])
                if a is not None:
                    if a[0] == "t":
                        if st.reads is not None:
                            st.reads.add((root, path))
                        return self.project(a[1], path[n:], ti)
                    break
        if st.reads is not None:
            st.reads.add((root, path))
        return self.lazy_init(root, path, ti)

    def read_len(self, st, root, path):
        """length ghost of a container place as an integer value (a fresh unknown when the stored value is not an integer)"""
        v = self.read(st, root, tuple(path) + ("$len",))
        if v[0] != "i":
            v = I(lin.var(self.fresh("len", (0, ISIZE_MAX))))
        return v

    def read_elem(self, root, path, ti):
        prog = self.prog
        last = path[-1]
        if last == "$len":
            return I(lin.var(self.fresh("elem_len", (0, ISIZE_MAX))))
        if last == "$discr":
            return I(lin.var(self.fresh("elem_discr", (0, 1 << 16))))
        if ti is not None:
            t = prog.types[ti]
            if t["k"] in ("int", "bool", "char"):
                return I(lin.var(self.fresh("elem", prog.int_range(ti))))
            if t["k"] in ("ref", "ptr"):
                return ("r", ("P", ("elem", root, path)), (), t.get("mut", False))
        return T(("elem", root, path))

    def project(self, term, rest, ti):
        prog = self.prog
        # projections of projections are flattened, so that a value reached through `?` / moves has
        # the same name as when it is matched in place
        while isinstance(term, tuple) and len(term) == 3 and term[0] == "proj":
            rest = tuple(term[2]) + tuple(rest)
            term = term[1]
        rest = tuple(rest)
        if rest and rest[-1] == "$len":
            return I(lin.var(self.named(("len", term, rest[:-1]), (0, ISIZE_MAX))))
        if rest and rest[-1] == "$discr":
            return I(lin.var(self.named(("discr", term, rest[:-1]), (0, 1 << 16))))
        if ti is not None:
            k = prog.types[ti]["k"]
            if k in ("int", "bool", "char"):
                return I(lin.var(self.named(("proj", term, rest), prog.int_range(ti))))
            if k in ("ref", "ptr"):
                return ("r", ("P", term, rest), (), prog.types[ti].get("mut", False))
        return T(("proj", term, rest))

    def has_subtree(self, st, root, path):
        d = st.store.get(root)
        if not d:
            return False
        n = len(path)
        for k in d:
            if len(k) > n and k[:n] == path:
                return True
        return False

    def subtree(self, st, root, path, ti=None):
        """dict relpath -> value for everything stored at/under (root,path)"""
        if "E" in path:
            if st.reads is not None:
                st.reads.add((root, path))
            return {(): self.read_elem(root, path, ti)}
        d = st.store.get(root)
        out = {}
        n = len(path)
        if d:
            for k, v in d.items():
                if len(k) >= n and k[:n] == path:
                    out[k[n:]] = v
        if () not in out:
            # value at the node itself may derive from an opaque ancestor / be unknown
            if d:
                for m in range(n - 1, -1, -1):
                    a = d.get(path[:m])
                    if a is not None:
                        if a[0] == "t":
                            out[()] = self.project(a[1], path[m:], ti)
                        break
            if () not in out and not out:
                out[()] = self.lazy_init(root, path, ti)
        if st.reads is not None:
            st.reads.add((root, path))
        return out

    def note_mem_write(self, st, root, path, v, node):
        if self.record and node is not None and root[0] == "P" and v is not None and v[0] == "i" and "E" not in path:
            old = self.read(st, root, path, self.static_type(root, path))
            if len(self.mem_writes) < 5000:
                self.mem_writes.append((node, root, path, old, v, st.ctx.copy()))

    def write(self, st, root, path, v, node=None):
        self.note_mem_write(st, root, path, v, node)
        d = st.store.get(root)
        if d is None:
            d = st.store[root] = {}
        n = len(path)
        for k in [k for k in d if len(k) > n and k[:n] == path]:
            del d[k]
        d[path] = v
        if st.writes is not None:
            st.writes.add((root, path))
        if self.record and node is not None:
            self.writes_log.append((node, root, path, v))

    def write_subtree(self, st, root, path, sub, node=None):
        if root[0] == "P" and len(sub) == 1 and () in sub:
            self.note_mem_write(st, root, path, sub[()], node)
        d = st.store.get(root)
        if d is None:
            d = st.store[root] = {}
        n = len(path)
        for k in [k for k in d if len(k) >= n and k[:n] == path]:
            del d[k]
        for rel, v in sub.items():
            d[path + rel] = v
        if st.writes is not None:
            st.writes.add((root, path))
        if self.record and node is not None:
            self.writes_log.append((node, root, path, sub.get((), ("agg", sub))))

    # ------------------------------------------------------------------ place resolution
    def resolve(self, st, fr, place):
        """MIR place -> (root, path, type idx)"""
        prog = self.prog
        body = fr.body
        root = ("L", fr.id, place["l"])
        path = ()
        ti = body.local_ty(place["l"])
        for pr in place["p"]:
            t = prog.types[ti] if ti is not None else None
            if pr == "deref":
                if t is not None and t["k"] == "adt" and t["path"] == "std::boxed::Box":
                    path = path + ("D",)
                    ti = t["args"][0] if t["args"] else None
                else:
                    v = self.read(st, root, path, ti)
                    if v[0] == "r":
                        root, path = v[1], v[2]
                    elif v[0] == "t":
                        root, path = ("P", v[1]), ()
                    else:
                        root, path = ("P", ("val", v)), ()
                    ti = t["inner"] if t is not None and t["k"] in ("ref", "ptr") else None
            elif "f" in pr:
                if not (t is not None and t["k"] == "adt" and prog.transparent_adt(t["path"])):
                    path = path + (pr["f"],)
                ti = pr["ty"]
            elif "downcast" in pr:
                path = path + (("v", pr["downcast"]),)
            elif "index" in pr or "cidx" in pr:
                if self.record and "cidx" in pr and not pr.get("from_end") and t is not None and t["k"] == "slice":
                    # a slice pattern (`[a, b, ..] = *buf`) reads the fixed offset like buf[k] would
                    ent = ((fr.id, None), fr.id, "ConstantIndex", lin.const(pr["cidx"]), lin.const(pr["cidx"] + 1))
                    if ent not in self.index_log[-8:]:
                        self.index_log.append(ent)
                path = path + ("E",)
                ti = t["inner"] if t is not None and t["k"] in ("slice", "array") else None
            else:
                path = path + ("E",)
                ti = None
        return root, path, ti

    # ------------------------------------------------------------------ operand evaluation
    def const_value(self, c):
        k = c["kind"]
        if k == "int":
            return ICONST(int(c["val"]))
        if k == "bool":
            return ICONST(1 if c["val"] else 0)
        if k == "char":
            return ICONST(int(c["val"]))
        if k == "fn":
            return ("fn", c["def"], c["ty"])
        if k == "str":
            return T(("str", c["val"]))
        if k == "bytes":
            return T(("bytes", tuple(c["val"])))
        if k == "zst":
            return T(("zst", self.prog.types[c["ty"]]["s"]))
        if k == "promoted":
            return T(("const", "%s::promoted[%d]" % (c["def"], c["index"])))
        if k == "scalar":
            return ICONST(int(c["val"]))
        return T(("const", c.get("repr", "?")))

    def eval_operand_sub(self, st, fr, op):
        """-> (subtree dict, type idx)"""
        if "const" in op:
            c = op["const"]
            if c.get("kind") == "promoted":
                sub = self.eval_promoted(st, c)
                if sub is not None:
                    return sub, c["ty"]
            v = self.const_value(c)
            sub = {(): v}
            if v[0] == "t" and v[1][0] == "const" and self.prog.types[c["ty"]]["s"] == "std::time::Duration":
                # constant Duration (named const of the crate): keep its whole seconds as a ghost
                secs = self.const_duration_secs(v[1][1])
                if secs is not None:
                    sub[("$secs",)] = ICONST(secs)
            if v[0] == "t" and v[1][0] == "const" and self.prog.types[c["ty"]]["k"] == "array":
                elems = self.const_array_elems(v[1][1], c["ty"])
                if elems is not None:
                    sub.update(elems)
            if v[0] == "t" and v[1][0] == "str":
                sub = {(): ("r", ("K", v[1]), (), False)}
            elif v[0] == "t" and v[1][0] == "bytes":
                sub = {(): ("r", ("K", v[1]), (), False)}
            return sub, c["ty"]
        p = op.get("copy") or op.get("move")
        root, path, ti = self.resolve(st, fr, p)
        sub = self.subtree(st, root, path, ti)
        if ti is not None and len(sub) == 1 and self.prog.types[ti]["k"] == "int":
            v = sub.get(())
            if v is not None and v[0] == "t":
                # an opaque value (e.g. the result of a generic helper) used at an integer type is an integer of that type:
                # one symbol per term, so that a test made on it and a later copy of it talk about the same number
                sub = {(): I(lin.var(self.named(("val", v), self.prog.int_range(ti))))}
        return sub, ti

    def eval_promoted(self, st, c):
        """value of a promoted constant: its (straight-line) MIR body is interpreted into a dedicated frame"""
        key = "%s::promoted[%d]" % (c["def"], c["index"])
        body = self.prog.bodies.get(key)
        if body is None:
            return None
        fid = (("promoted", key),)
        if ("L", fid, 0) not in st.store:
            fr = Frame(fid, body, {}, 0, "const")
            self.frame_bodies[fid] = body
            rec = self.record
            self.record = False
            hooks = (self.call_hooks, self.post_call_hooks, self.edge_hooks)
            self.call_hooks, self.post_call_hooks, self.edge_hooks = [], [], []
            try:
                exits, _ = self.exec_blocks(fr, 0, st, None, None)
            finally:
                self.record = rec
                self.call_hooks, self.post_call_hooks, self.edge_hooks = hooks
            rets = [s2 for (tg, s2) in exits if tg == "return"]
            if len(rets) != 1 or rets[0] is not st:
                return None
        return self.subtree(st, ("L", fid, 0), (), body.local_ty(0))

    def const_array_elems(self, name, ti):
        """elements of a named constant array of integers, chars or field-less enum variants, read off the compiler's rendering
        of the evaluated constant: {(('a', i), ...): value, ('$len',): n} or None"""
        import re as _re
        prog = self.prog
        rep = None
        for k, c in prog.consts.items():
            if k == name or k.endswith("::" + name):
                rep = c.get("repr")
        if rep is None:
            rep = name
        rep = rep.strip()
        if not (rep.startswith("[") and rep.endswith("]")):
            return None
        inner = rep[1:-1].strip()
        if not inner:
            return {("$len",): ICONST(0)}
        if "(" in inner or "{" in inner or "[" in inner:
            return None
        items = [x.strip() for x in inner.split(",")]
        et = prog.types[ti].get("inner")
        ett = prog.types[et] if et is not None else None
        out = {}
        for i, it in enumerate(items):
            m = _re.match(r"^(-?\d+)(_[iu]\d+|_usize|_isize)?$", it)
            if m:
                out[(("a", i),)] = ICONST(int(m.group(1)))
                continue
            m = _re.match(r"^'(\\?.)'$", it)
            if m:
                ch = m.group(1)
                out[(("a", i),)] = ICONST(ord(ch[-1]) if not ch.startswith("\\") or ch == "\\\\" else {"n": 10, "t": 9, "0": 0, "r": 13}.get(ch[-1], ord(ch[-1])))
                continue
            if ett is not None and ett["k"] == "adt" and ett["path"] in prog.adts and prog.adts[ett["path"]]["kind"] == "enum":
                vn = it.split("::")[-1]
                a = prog.adts[ett["path"]]
                idx = [j for j, vv in enumerate(a["variants"]) if vv["name"] == vn and not vv["fields"]]
                if len(idx) == 1:
                    out[(("a", i), "$discr")] = ICONST(prog.variant_discr(ett["path"], idx[0]))
                    continue
            return None
        out[("$len",)] = ICONST(len(items))
        return out

    def const_duration_secs(self, repr_):
        import re as _re
        m = _re.search(r"secs: (\d+)_u64", repr_)
        if m:
            return int(m.group(1))
        # a named constant: look its evaluated value up
        for k, c in self.prog.consts.items():
            if k.split("::", 1)[-1] == repr_ or k.endswith("::" + repr_.split("::")[-1]) and repr_.split("::")[0] in k:
                m = _re.search(r"secs: (\d+)_u64", c.get("repr", ""))
                if m:
                    return int(m.group(1))
        return None

    def eval_operand(self, st, fr, op):
        """scalar view: value at the node (aggregates give their () entry or an 'agg' marker)"""
        sub, ti = self.eval_operand_sub(st, fr, op)
        v = sub.get(())
        if v is None:
            return ("agg", sub), ti
        return v, ti

    def as_lin(self, v, ti=None):
        """integer view of a value as linear expression (fresh symbol if not linear)"""
        if v[0] == "i":
            return v[1]
        if v[0] == "b":
            s = self.fresh("b", (0, 1))
            return lin.var(s)
        rng = self.type_range(ti)
        return lin.var(self.named(("val", v), rng))

    # ------------------------------------------------------------------ bool handling
    def assume_bool(self, st, b, truth):
        """add to st.ctx the fact that symbolic bool b has truth value `truth`"""
        k = b[0]
        if k == "cmp":
            op, a, c = b[1], b[2], b[3]
            if not truth:
                op = {"Lt": "Ge", "Le": "Gt", "Gt": "Le", "Ge": "Lt", "Eq": "Ne", "Ne": "Eq"}[op]
            if op == "Lt":
                st.ctx.add(lin.lt(a, c))
            elif op == "Le":
                st.ctx.add(lin.le(a, c))
            elif op == "Gt":
                st.ctx.add(lin.lt(c, a))
            elif op == "Ge":
                st.ctx.add(lin.le(c, a))
            elif op == "Eq":
                st.ctx.add_eq(a, c)
            elif op == "Ne":
                st.ctx.add_neq(a, c)
        elif k == "not":
            self.assume_bool(st, b[1], not truth)
        elif k == "and":
            if truth:
                self.assume_bool(st, b[1], True)
                self.assume_bool(st, b[2], True)
        elif k == "or":
            if not truth:
                self.assume_bool(st, b[1], False)
                self.assume_bool(st, b[2], False)
        elif k == "lit":
            if bool(b[1]) != truth:
                st.ctx._dead = True

    def bool_cons(self, b, truth):
        """constraints (list of e<=0) equivalent to b==truth when expressible as a conjunction, else None"""
        k = b[0]
        if k == "cmp":
            op, a, c = b[1], b[2], b[3]
            if not truth:
                op = {"Lt": "Ge", "Le": "Gt", "Gt": "Le", "Ge": "Lt", "Eq": "Ne", "Ne": "Eq"}[op]
            if op == "Lt":
                return [lin.lt(a, c)]
            if op == "Le":
                return [lin.le(a, c)]
            if op == "Gt":
                return [lin.lt(c, a)]
            if op == "Ge":
                return [lin.le(c, a)]
            if op == "Eq":
                return [lin.le(a, c), lin.le(c, a)]
            return None
        if k == "not":
            return self.bool_cons(b[1], not truth)
        if k == "and" and truth:
            x = self.bool_cons(b[1], True)
            y = self.bool_cons(b[2], True)
            if x is not None and y is not None:
                return x + y
        if k == "or" and not truth:
            x = self.bool_cons(b[1], False)
            y = self.bool_cons(b[2], False)
            if x is not None and y is not None:
                return x + y
        return None

    def prove_bool(self, st, b, truth=True):
        """is b==truth entailed?"""
        k = b[0]
        if k == "lit":
            return bool(b[1]) == truth
        if k == "cmp" and ((b[1] == "Ne" and truth) or (b[1] == "Eq" and not truth)):
            a, c = b[2], b[3]
            self.fm_calls += 1
            return st.ctx.entails(lin.lt(a, c)) or st.ctx.entails(lin.lt(c, a)) or st.ctx.infeasible_with(
                [lin.le(a, c), lin.le(c, a)])
        cons = self.bool_cons(b, truth)
        if cons is None:
            if k == "not":
                return self.prove_bool(st, b[1], not truth)
            if k == "and" and not truth:
                return self.prove_bool(st, b[1], False) or self.prove_bool(st, b[2], False)
            if k == "or" and truth:
                return self.prove_bool(st, b[1], True) or self.prove_bool(st, b[2], True)
            return False
        self.fm_calls += len(cons)
        return all(st.ctx.entails(c) for c in cons)

    def to_bool(self, v):
        """value -> symbolic bool"""
        if v[0] == "b":
            return v[1]
        if v[0] == "i":
            c = const_of(v)
            if c is not None:
                return ("lit", bool(c))
            return ("cmp", "Ne", v[1], lin.const(0))
        return ("opaque", v)

    # ------------------------------------------------------------------ rvalues
    def eval_rvalue(self, st, fr, rv, dest_ti, node):
        """-> subtree dict for the destination"""
        prog = self.prog
        k = rv["k"]
        if k == "use":
            sub, _ = self.eval_operand_sub(st, fr, rv["op"])
            return sub
        if k == "ref" or k == "rawptr":
            root, path, ti = self.resolve(st, fr, rv["place"])
            return {(): ("r", root, path, rv.get("mut", False))}
        if k == "bin":
            return {(): self.eval_bin(st, fr, rv, dest_ti)}
        if k == "un":
            op = rv["op"]
            v, ti = self.eval_operand(st, fr, rv["x"])
            if op == "Not":
                if ti is not None and prog.types[ti]["k"] == "bool":
                    b = self.to_bool(v)
                    if b[0] == "lit":
                        return {(): ICONST(0 if b[1] else 1)}
                    return {(): ("b", ("not", b))}
                return {(): I(lin.var(self.fresh("not", self.type_range(dest_ti))))}
            if op == "Neg":
                if v[0] == "i":
                    return {(): I(lin.scale(v[1], -1))}
                return {(): I(lin.var(self.fresh("neg", self.type_range(dest_ti))))}
            if op == "PtrMetadata":
                # length of the slice behind a reference
                if v[0] == "r":
                    return {(): self.read(st, v[1], v[2] + ("$len",))}
                if v[0] == "t":
                    return {(): self.read(st, ("P", v[1]), ("$len",))}
                return {(): I(lin.var(self.fresh("meta", (0, ISIZE_MAX))))}
            return {(): T(("unop", op, v))}
        if k == "cast":
            v, ti = self.eval_operand(st, fr, rv["op"])
            ck = rv["ck"]
            tt = rv["ty"]
            if ck.startswith("IntToInt"):
                rng = self.type_range(tt)
                if v[0] == "b":
                    b = v[1]
                    s = self.fresh("boolint", (0, 1))
                    return {(): I(lin.var(s))}
                if v[0] == "i" and rng is not None:
                    e = v[1]
                    self.fm_calls += 2
                    if st.ctx.entails(lin.le(lin.const(rng[0]), e)) and st.ctx.entails(lin.le(e, lin.const(rng[1]))):
                        return {(): I(e, v[2])}
                    bits = prog.types[tt].get("bits")
                    # a pure function of its operand: the same operand truncates to the same value (and rules can expand it mod 2^bits)
                    s = self.named(("trunc", bits, e), rng) if bits else self.fresh("trunc", rng)
                    self.link(lin.var(s), e)
                    if self.record:
                        self.warnings.append(("lossy-cast", fr.body.path, node[1], prog.types[tt]["s"]))
                    md = v[2]
                    if md is None and bits:
                        md = (bits, e)
                    if md is not None and bits and md[0] >= bits:
                        md = (bits, md[1])
                    else:
                        md = None
                    return {(): ("i", lin.var(s), md, ("truncated_from", e))}
                return {(): I(lin.var(self.fresh("cast", rng)))}
            if ck.startswith("PointerCoercion") or ck.startswith("Transmute") or ck.startswith("PtrToPtr"):
                # unsizing etc.: same referent
                sub, _ = self.eval_operand_sub(st, fr, rv["op"])
                if v[0] == "r" and "Unsize" in ck:
                    # array -> slice: give the slice a length if the array type is known
                    src_t = prog.types[prog.peel_refs(ti)] if ti is not None else None
                    if src_t is not None and src_t["k"] == "array":
                        try:
                            n = int(src_t["len"].split("_")[0])
                            d = st.store.setdefault(v[1], {})
                            if v[2] + ("$len",) not in d:
                                d[v[2] + ("$len",)] = ICONST(n)
                        except ValueError:
                            pass
                return sub
            return {(): T(("cast", ck, v))}
        if k == "agg":
            ak = rv["ak"]
            out = {}
            t = ak["t"]
            if t == "adt":
                ap = ak["path"]
                vi = ak["variant"]
                a = prog.adts.get(ap)
                is_enum = (a["kind"] == "enum") if a is not None else (ap in STD_ENUMS)
                base = ()
                if is_enum:
                    out[("$discr",)] = ICONST(prog.variant_discr(ap, vi))
                    base = (("v", vi),)
                if not is_enum and len(rv["ops"]) == 1 and prog.transparent_adt(ap):
                    sub, _ = self.eval_operand_sub(st, fr, rv["ops"][0])
                    return dict(sub)
                for i, op in enumerate(rv["ops"]):
                    sub, _ = self.eval_operand_sub(st, fr, op)
                    fi = i
                    if ak.get("active_field") is not None:
                        fi = ak["active_field"]
                    for rel, v in sub.items():
                        out[base + (fi,) + rel] = v
                if not rv["ops"] and not is_enum:
                    out[()] = T(("unit", ap))
                return out
            if t in ("tuple", "closure"):
                for i, op in enumerate(rv["ops"]):
                    sub, _ = self.eval_operand_sub(st, fr, op)
                    for rel, v in sub.items():
                        out[(i,) + rel] = v
                if t == "closure":
                    out[("$closure",)] = T(("closure", ak["def"]))
                if not out:
                    out[()] = T(("unit", "()"))
                return out
            if t == "array":
                vals = []
                for i, op in enumerate(rv["ops"]):
                    sub, _ = self.eval_operand_sub(st, fr, op)
                    for rel, v in sub.items():
                        out[(("a", i),) + rel] = v
                    vals.append(sub.get(()))
                out[("$len",)] = ICONST(len(rv["ops"]))
                out[("$elems",)] = T(("elems", tuple(vals)))
                return out
            return {(): T(("agg", repr(ak)))}
        if k == "discr":
            root, path, ti = self.resolve(st, fr, rv["place"])
            v = self.read(st, root, path + ("$discr",))
            if v[0] == "i":
                # tighten the range by the number of variants when the enum is known
                ap = prog.adt_of(ti) if ti is not None else None
                e = v[1]
                if len(e[1]) == 1 and e[0] == 0 and e[1][0][1] == 1:
                    s = e[1][0][0]
                    vals = self.enum_discr_values(ap, ti)
                    if vals:
                        lo, hi = min(vals), max(vals)
                        old = self.ranges.get(s)
                        if old is None or old[1] is None or old[1] > hi or old[0] < lo:
                            self.ranges[s] = (lo, hi)
            return {(): v}
        if k == "repeat":
            sub, _ = self.eval_operand_sub(st, fr, rv["op"])
            out = {("E",) + rel: v for rel, v in sub.items()}
            try:
                out[("$len",)] = ICONST(int(rv["n"].split("_")[0]))
            except ValueError:
                pass
            return out
        return {(): T(("rvalue", rv.get("repr", k)))}

    def enum_discr_values(self, ap, ti):
        prog = self.prog
        if ap is None:
            return None
        a = prog.adts.get(ap)
        if a is not None and a["kind"] == "enum":
            return [prog.variant_discr(ap, i) for i in range(len(a["variants"]))]
        if ap in ("std::cmp::Ordering", "core::cmp::Ordering"):
            return [0, 1, 255]
        if ap in STD_ENUMS:
            return list(range(STD_ENUMS[ap]))
        return None

    def eval_bin(self, st, fr, rv, dest_ti):
        prog = self.prog
        op = rv["op"]
        a, ta = self.eval_operand(st, fr, rv["l"])
        b, tb = self.eval_operand(st, fr, rv["r"])
        is_bool = ta is not None and prog.types[ta]["k"] == "bool"
        if op in ("Lt", "Le", "Gt", "Ge", "Eq", "Ne"):
            if is_bool and (a[0] == "b" or b[0] == "b"):
                return ("b", ("opaque", (op, a, b)))
            if (a[0] in ("i",)) and (b[0] in ("i",)):
                d = lin.sub(a[1], b[1])
                if lin.is_const(d):
                    c = d[0]
                    r = {"Lt": c < 0, "Le": c <= 0, "Gt": c > 0, "Ge": c >= 0, "Eq": c == 0, "Ne": c != 0}[op]
                    return ICONST(1 if r else 0)
                self.link(a[1], b[1])
                if not a[1][1]:
                    self.note_const(b[1], a[1][0])
                elif not b[1][1]:
                    self.note_const(a[1], b[1][0])
                return ("b", ("cmp", op, a[1], b[1]))
            if a[0] != "i" and b[0] != "i" and op in ("Eq", "Ne"):
                if a == b:
                    return ICONST(1 if op == "Eq" else 0)
            return ("b", ("opaque", (op, a, b)))
        if op in ("BitAnd", "BitOr") and is_bool:
            x, y = self.to_bool(a), self.to_bool(b)
            return ("b", ("and" if op == "BitAnd" else "or", x, y))
        checked = op.endswith("WithOverflow")
        base = op[:-12] if checked else op
        if base.endswith("Unchecked"):
            base = base[:-9]
        rng = None
        res_ti = dest_ti
        if checked and dest_ti is not None:
            tt = prog.types[dest_ti]
            if tt["k"] == "tuple":
                res_ti = tt["elems"][0]
        rng = self.type_range(res_ti) or self.type_range(ta)
        la = self.as_lin(a, ta)
        lb = self.as_lin(b, tb)
        exact = None
        if base == "Add":
            exact = lin.add(la, lb)
        elif base == "Sub":
            exact = lin.sub(la, lb)
        elif base == "Mul":
            if lin.is_const(la):
                exact = lin.scale(lb, la[0])
            elif lin.is_const(lb):
                exact = lin.scale(la, lb[0])
        elif base == "Shl":
            if lin.is_const(lb) and 0 <= lb[0] < 64:
                exact = lin.scale(la, 1 << lb[0])
        elif base in ("Div", "Rem", "Shr", "BitAnd", "BitOr", "BitXor"):
            if lin.is_const(la) and lin.is_const(lb):
                x, y = la[0], lb[0]
                try:
                    val = {"Div": lambda: x // y, "Rem": lambda: x % y, "Shr": lambda: x >> y,
                           "BitAnd": lambda: x & y, "BitOr": lambda: x | y, "BitXor": lambda: x ^ y}[base]()
                    exact = lin.const(val)
                except Exception:
                    exact = None
        ma = a[2] if a[0] == "i" and len(a) > 2 else None
        mb = b[2] if b[0] == "i" and len(b) > 2 else None
        if checked:
            # (.0 = mathematical result, .1 = overflow flag)
            if exact is None:
                s = self.fresh("arith", rng)
                return ("pair", I(lin.var(s)), ICONST(0), None)
            ovf = ("or", ("cmp", "Gt", exact, lin.const(rng[1])), ("cmp", "Lt", exact, lin.const(rng[0]))) if rng else ("lit", False)
            return ("pair", I(exact), ("b", ovf), (base, la, lb, rng))
        if exact is None:
            return I(lin.var(self.fresh("arith", rng)))
        # unchecked plain op in MIR (release-style or after assert): value is exact when in range;
        # at mir-opt-level 0 debug builds plain Add only follows a passed overflow assert.
        if rng is not None:
            self.fm_calls += 2
            if st.ctx.entails(lin.le(exact, lin.const(rng[1]))) and st.ctx.entails(lin.le(lin.const(rng[0]), exact)):
                return I(exact)
            s = self.fresh("wrap", rng)
            self.link(lin.var(s), exact)
            return ("i", lin.var(s), None, ("maywrap", base, exact))
        return I(exact)

    # ------------------------------------------------------------------ obligations
    def oblige(self, st, fr, bb, kind, detail, proven, residual=""):
        if not self.record:
            return None
        key = (fr.id, bb, kind, detail)
        o = self.obligations.get(key)
        if o is None:
            o = self.obligations[key] = Obligation(kind, fr.id, fr.body.path, bb, fr.body.loc(bb), detail, proven,
                                                   fr.region, residual)
        else:
            if not proven:
                o.proven = False
                if residual:
                    o.residual = residual
        if not proven and len(o.states) < 16:
            o.states.append(st.ctx.copy())
        return o

    def require(self, st, fr, bb, kind, detail, cons):
        """obligation: every constraint in cons (e<=0) is entailed; assume them afterwards"""
        ok = True
        res = []
        for c in cons:
            self.fm_calls += 1
            if not st.ctx.entails(c):
                ok = False
                res.append(lin.show(c) + " <= 0")
        self.oblige(st, fr, bb, kind, detail, ok, "; ".join(res))
        for c in cons:
            st.ctx.add(c)
        return ok

    # ------------------------------------------------------------------ execution
    def static_type(self, root, path):
        """best-effort MIR type index of a canonical place (locals of known frames only)"""
        prog = self.prog
        if root[0] == "P" and len(root) == 3 and isinstance(root[1], tuple) and root[1] and root[1][0] in ("L", "P"):
            pt = self.static_type(root[1], root[2])
            if pt is None or prog.types[pt]["k"] not in ("ref", "ptr"):
                return None
            ti = prog.types[pt]["inner"]
        elif root[0] != "L" or not isinstance(root[2], int):
            return None
        else:
            body = self.frame_bodies.get(root[1])
            if body is None or root[2] >= len(body.locals):
                return None
            ti = body.local_ty(root[2])
        for el in path:
            if ti is None:
                return None
            t = prog.types[ti]
            if isinstance(el, int):
                if t["k"] == "tuple":
                    ti = t["elems"][el] if el < len(t["elems"]) else None
                elif t["k"] == "adt":
                    a = prog.adts.get(t["path"])
                    if a is None or a["kind"] != "struct":
                        return None
                    f = a["variants"][0]["fields"]
                    ti = f[el]["ty"] if el < len(f) else None
                    while ti is not None and prog.types[ti]["k"] == "adt" and prog.transparent_adt(prog.types[ti]["path"]):
                        ti = prog.adts[prog.types[ti]["path"]]["variants"][0]["fields"][0]["ty"]
                elif t["k"] == "closure":
                    ti = t["upvars"][el] if el < len(t["upvars"]) else None
                else:
                    return None
            elif el == "D":
                ti = t["args"][0] if t["k"] == "adt" and t.get("args") else None
            elif el in ("$len", "$discr"):
                return None
            else:
                return None
        while ti is not None and prog.types[ti]["k"] == "adt" and prog.transparent_adt(prog.types[ti]["path"]):
            ti = prog.adts[prog.types[ti]["path"]]["variants"][0]["fields"][0]["ty"]      # a newtype over an integer is that integer
        return ti

    def is_bool_place(self, root, path):
        ti = self.static_type(root, path)
        return ti is not None and self.prog.types[ti]["k"] == "bool"

    def new_frame(self, parent, body, site, binding, region):
        fid = (parent.id if parent is not None else ()) + (site,)
        self.frame_bodies[fid] = body
        depth = (parent.depth + 1) if parent is not None else 0
        return Frame(fid, body, binding, depth, region)

    def run(self, body_path, setup=None, region="main", state=None, frame_site=None):
        """explore body_path as an entry; returns list of final states"""
        body = self.prog.bodies[body_path]
        st = state if state is not None else State(self.ranges)
        fr = Frame((frame_site or ("entry", body_path),), body, {}, 0, region)
        self.frame_bodies[fr.id] = body
        if setup is not None:
            setup(self, st, fr)
        outs = self.exec_blocks(fr, 0, st, None, None)
        finals = [s for (t, s) in outs[0] if t == "return"]
        self.drain_spawns()
        return fr, finals

    def drain_spawns(self):
        """Explore every spawned closure ONCE, from a symbolic environment: each captured leaf is a
        tagged unknown ('env', closure, path); integer leaves additionally carry every template
        bound that all spawning states entail (a procedure-summary style precondition = join over
        the spawn sites). The listener-side value of each leaf is kept on the spawn events
        (argsnap), so rules compose provenance across the thread boundary by substitution."""
        while self.spawned:
            groups = {}
            order = []
            for rec in self.spawned:
                if rec[1] not in groups:
                    groups[rec[1]] = []
                    order.append(rec[1])
                groups[rec[1]].append(rec)
            self.spawned = []
            for clos_def in order:
                recs = groups[clos_def]
                body = self.prog.bodies.get(clos_def)
                if body is None:
                    continue
                region = "thread:" + clos_def
                fid = (("spawn", clos_def),)
                fr = Frame(fid, body, {}, 0, region)
                self.frame_bodies[fid] = body
                st = State(self.ranges)
                env_root = ("L", fid, 1)
                keys = []
                for (ev, _, sub, s0) in recs:
                    for k in sub:
                        if k not in keys:
                            keys.append(k)
                int_keys = []
                envsub = {}
                for k in keys:
                    vals = [sub.get(k) for (_, _, sub, _) in recs]
                    if all(v is not None and v[0] in ("i", "b") for v in vals):
                        sti = self.static_type(env_root, k)
                        rng = self.type_range(sti) if sti is not None else None
                        if rng is None and all(v[0] == "b" for v in vals):
                            rng = (0, 1)
                        sym = self.named(("env", clos_def, k), rng)
                        envsub[k] = I(lin.var(sym))
                        int_keys.append(k)
                    elif k and k[-1] == "$closure":
                        envsub[k] = vals[0]
                    elif all(v is not None and v[0] == "fn" for v in vals):
                        envsub[k] = vals[0]
                    else:
                        envsub[k] = T(("env", clos_def, k))
                st.store[env_root] = dict(envsub)
                # integer preconditions entailed by every spawning state (tightest threshold per side)
                pre = []
                for k in int_keys:
                    e_env = envsub[k][1]
                    for sign in (1, -1):
                        cs = self.consts if sign == 1 else list(reversed(self.consts))
                        for c in cs:
                            ok = True
                            for (_, _, sub, s0) in recs:
                                v = sub[k]
                                ev_ = v[1] if v[0] == "i" else None
                                if ev_ is None:
                                    ok = False
                                    break
                                q = lin.sub(ev_, lin.const(c)) if sign == 1 else lin.sub(lin.const(c), ev_)
                                self.fm_calls += 1
                                if not s0.ctx.entails(q):
                                    ok = False
                                    break
                            if ok:
                                q = lin.sub(e_env, lin.const(c)) if sign == 1 else lin.sub(lin.const(c), e_env)
                                st.ctx.add(q)
                                pre.append(lin.show(q) + " <= 0")
                                self.thread_pre.setdefault(fid, []).append(q)
                                break
                if self.record:
                    self.thread_entries[clos_def] = {
                        "spawn_events": [r[0].idx for r in recs],
                        "env_keys": [repr(k) for k in keys],
                        "preconditions": pre}
                    aids = []
                    for (ev, _, _, _) in recs:
                        self.edges.add(((ev.ctx, ev.bb), (fid, 0), "spawn"))
                        if getattr(ev, "anode", None) is not None and ev.anode not in aids:
                            aids.append(ev.anode)
                    st.aids = tuple(aids)
                self.exec_blocks(fr, 0, st, None, None)

    def arg_node(self, pnode, st):
        """new node of the abstract reachability graph for `st` executing program node `pnode`"""
        an = len(self.arg_proj)
        self.arg_proj.append(pnode)
        for p_ in st.aids:
            self.arg_edges.add((p_, an))
        st.aids = (an,)
        return an

    def exec_blocks(self, fr, start, st0, region, head):
        """Explore from block `start`. Blocks are processed in reverse post order so that all states
        reaching a join point are available together and can be merged when they differ only in
        boolean flags. Returns (exits [(target, state[, prev])], backs [state])."""
        body = fr.body
        exits = []
        backs = []
        pending = {}
        rpo = body.rpo_index
        guard = 0

        def push(bb, st, prev):
            pending.setdefault(bb, []).append((st, prev))

        head_arg = [None]

        def run_block(bb, st, prev):
            self.steps += 1
            if self.deadline is not None and (self.steps & 255) == 0 and time.time() > self.deadline:
                raise BudgetExceeded("exploration of %s exceeded its time budget" % body.path)
            if self.record:
                self.nodes[(fr.id, bb)] = self.nodes.get((fr.id, bb), 0) + 1
                if prev is not None and (fr.id, prev) not in self.inlined_nodes:
                    self.edges.add(((fr.id, prev), (fr.id, bb), "flow"))
                an = self.arg_node((fr.id, bb), st)
                if bb == head and head_arg[0] is None:
                    head_arg[0] = an
            for (nb, ns) in self.exec_block(fr, bb, st):
                if nb == "return":
                    if self.record:
                        self.edges.add(((fr.id, bb), (fr.id, "ret"), "flow"))
                        self.arg_node((fr.id, "ret"), ns)
                    exits.append(("return", ns, bb))
                else:
                    push(nb, ns, bb)

        # the start block is executed unconditionally (it may be the loop head being iterated)
        if start in body.loops and start != head:
            for (xb, xs, xp) in self.exec_loop(fr, start, st0):
                if xb == "return":
                    exits.append(("return", xs, xp))
                else:
                    push(xb, xs, xp)
        else:
            run_block(start, st0, None)
        while pending:
            guard += 1
            if guard > 100000:
                raise BudgetExceeded("exploration budget exceeded in %s" % body.path)
            if self.deadline is not None and (guard & 15) == 0 and time.time() > self.deadline:
                raise BudgetExceeded("exploration of %s exceeded its time budget (%d states at one join point)" % (body.path, max(len(v) for v in pending.values())))
            bb = min(pending, key=lambda b: rpo.get(b, 1 << 30))
            items = pending.pop(bb)
            if bb == head:
                for st, prev in items:
                    if self.record and prev is not None and (fr.id, prev) not in self.inlined_nodes:
                        self.edges.add(((fr.id, prev), (fr.id, bb), "back"))
                    elif self.record and prev is not None:
                        self.back_via_call.add(((fr.id, prev), (fr.id, bb)))
                    if self.record and head_arg[0] is not None:
                        for p_ in st.aids:
                            self.arg_edges.add((p_, head_arg[0]))
                    backs.append(st)
                continue
            if region is not None and bb not in region:
                for st, prev in items:
                    exits.append((bb, st, prev))
                continue
            if len(items) > 1 or len(body.pred[bb]) > 1:
                items = self.merge_items(fr, bb, items)
            if bb in body.loops:
                for st, prev in items:
                    if self.record and prev is not None and (fr.id, prev) not in self.inlined_nodes:
                        self.edges.add(((fr.id, prev), (fr.id, bb), "flow"))
                    for (xb, xs, xp) in self.exec_loop(fr, bb, st):
                        if xb == "return":
                            exits.append(("return", xs, xp))
                        else:
                            push(xb, xs, xp)
                continue
            for st, prev in items:
                run_block(bb, st, prev)
        if region is None:
            return ([(t, s) for (t, s, p) in exits], backs)
        return (exits, backs)

    # ---- merging of states at join points
    def prune_dead(self, fr, bb, st):
        body = fr.body
        live = body.live_in[bb]
        addr = body.addr_taken
        fid = fr.id
        dead = [r for r in st.store if r[0] == "L" and r[1] == fid and isinstance(r[2], int)
                and r[2] not in live and r[2] not in addr and r[2] > body.arg_count]
        for r in dead:
            del st.store[r]

    def boolish(self, v):
        if v[0] == "b":
            return True
        if v[0] != "i":
            return False
        e = v[1]
        if not e[1]:
            return e[0] in (0, 1)
        if len(e[1]) == 1 and e[0] == 0 and e[1][0][1] == 1:
            r = self.ranges.get(e[1][0][0])
            return r == (0, 1)
        return False

    def is_flag_symbol(self, s):
        """symbol standing for a compiler-generated bool local (drop flag): merged flags or their loop-head copies"""
        n = self.sym_names[s]
        if isinstance(n, str):
            return n.startswith("flag#")
        if isinstance(n, tuple) and n and n[0] in ("phi",) and len(n) == 5:
            root, k = n[3], n[4]
            if k == () and root[0] == "L" and isinstance(root[2], int):
                body = self.frame_bodies.get(root[1])
                if body is not None and root[2] < len(body.locals):
                    return self.prog.types[body.local_ty(root[2])]["k"] == "bool" and body.user_name(root[2]) is None
        return False

    def flag_only(self, c):
        for s, _ in c[1]:
            if not self.is_flag_symbol(s):
                return False
        return True

    def is_flag_place(self, fr, r, k):
        """compiler-generated bool local of the current frame (drop flag / temporary), not a user variable"""
        if k != () or r[0] != "L" or r[1] != fr.id or not isinstance(r[2], int):
            return False
        body = fr.body
        if self.prog.types[body.local_ty(r[2])]["k"] != "bool":
            return False
        return body.user_name(r[2]) is None

    def try_merge(self, fr, a, b):
        """merge b into a if they differ only in compiler-generated boolean flags"""
        sa, sb = a.store, b.store
        if sa.keys() != sb.keys():
            return False
        diffs = []
        for r, da in sa.items():
            db = sb[r]
            if da == db:
                continue
            if da.keys() != db.keys():
                return False
            for k, va in da.items():
                vb = db[k]
                if va != vb:
                    if self.is_flag_place(fr, r, k) and self.boolish(va) and self.boolish(vb):
                        diffs.append((r, k))
                    else:
                        return False
        ca, cb = a.ctx.cons, b.ctx.cons
        if ca != cb:
            seta, setb = set(ca), set(cb)
            for c in seta ^ setb:
                if not self.flag_only(c):
                    return False
            a.ctx.cons = [c for c in ca if c in setb]
        if a.ctx.hyps != b.ctx.hyps:
            hb = set(b.ctx.hyps)
            a.ctx.hyps = [c for c in a.ctx.hyps if c in hb]
        na, nb = a.ctx.neqs, b.ctx.neqs
        if na != nb:
            seta, setb = set(na), set(nb)
            for c in seta ^ setb:
                if not self.flag_only(c):
                    return False
            a.ctx.neqs = [c for c in na if c in setb]
        for (r, k) in diffs:
            sa[r][k] = I(lin.var(self.fresh("flag", (0, 1))))
        if b.aids != a.aids:
            a.aids = a.aids + tuple(x for x in b.aids if x not in a.aids)
        return True

    def merge_items(self, fr, bb, items):
        if len(items) > self.max_join_states:
            raise BudgetExceeded("state explosion: %d states reach block %s of %s" % (len(items), bb, fr.body.path))
        for st, _ in items:
            self.prune_dead(fr, bb, st)
        if len(items) == 1:
            return items
        out = []
        buckets = {}
        n_seen = 0
        for st, prev in items:
            merged = False
            n_seen += 1
            if self.deadline is not None and (n_seen & 63) == 0 and time.time() > self.deadline:
                raise BudgetExceeded("exploration of %s exceeded its time budget (%d states at one join point)" % (fr.body.path, len(items)))
            # states can only merge when everything except compiler-generated flags agrees: bucket them by a signature
            # of exactly that part, so that a join with thousands of states costs a linear pass, not a quadratic one
            sig = self.merge_signature(fr, st) if len(items) > 8 else None
            cand_list = buckets.setdefault(sig, []) if sig is not None else out
            for (o, oprev) in cand_list:
                if self.try_merge(fr, o, st):
                    if self.record and prev is not None and (fr.id, prev) not in self.inlined_nodes:
                        self.edges.add(((fr.id, prev), (fr.id, bb), "flow"))
                    merged = True
                    break
            if not merged:
                out.append((st, prev))
                if sig is not None:
                    buckets[sig].append((st, prev))
        return out

    def merge_signature(self, fr, st):
        h = 0
        for r, d in st.store.items():
            for k, v in d.items():
                if self.is_flag_place(fr, r, k) and self.boolish(v):
                    continue
                h ^= hash((r, k, v))
        hc = 0
        for c in st.ctx.cons:
            if not self.flag_only(c):
                hc ^= hash(c)
        hn = 0
        for c in st.ctx.neqs:
            if not self.flag_only(c):
                hn ^= hash(c)
        return (len(st.store), h, hc, hn)

    # ---- loops
    def exec_loop(self, fr, h, st_in):
        body = fr.body
        L = body.loops[h]
        saved_record = self.record
        self.record = False
        key = (fr.id, h)
        ctxsig = tuple((k, ph[0]) for k, ph in self.loop_stack)
        ce = self.loop_cache.get(key)
        M = set()
        cands = None
        reads = set()
        bodies_seen = set([body.path])
        if ce is not None:
            M = set(ce["M"])
            reads = set(ce["reads"])
            bodies_seen |= ce["bodies"]
            if ce["sig"] == ctxsig and ce["cands"] is not None:
                cands = [c for c in ce["cands"] if self.cand_holds(st_in, c)]
        phase = [0 if cands is None else 1]
        self.loop_stack.append((key, phase))
        it = 0
        head_state = None
        try:
            while True:
                it += 1
                if it > 40:
                    self.warnings.append(("loop-no-convergence", body.path, h))
                    cands = []
                    head_state, _ = self.make_head(st_in, fr, h, M, [])
                    break
                S, symmap = self.make_head(st_in, fr, h, M, cands or [])
                ctr0 = self.symctr
                probe = S.fork()
                probe.writes = set()
                probe.reads = set()
                self.body_sets.append(bodies_seen)
                try:
                    exits, backs = self.exec_blocks(fr, h, probe, L, h)
                finally:
                    self.body_sets.pop()
                reads |= probe.reads
                # modified places: written during the body and whose value at a back edge differs from S
                W = set()
                for (root, path) in probe.writes:
                    if root[0] == "L" and root[1] != fr.id and len(root[1]) > len(fr.id) and root[1][:len(fr.id)] == fr.id:
                        continue  # local of a frame created inside the loop body
                    if root[0] == "H" and root not in st_in.store:
                        continue  # object allocated inside the loop body
                    if root[0] == "P" and isinstance(root[1], tuple) and root[1] and root[1][0] == "elem" and root[1][2] > ctr0:
                        continue  # iterator element handed out inside the loop body
                    for bs in backs:
                        if self.subtree_differs(S, bs, root, path):
                            W.add((root, path))
                            break
                W = self.normalise_mod(S, W | M)
                if W != M:
                    M = W
                    if cands is not None:
                        # keep the candidate guesses; they are re-verified below
                        pass
                    continue
                if cands is None:
                    for (root_, path_) in M:
                        hv = S.store.get(root_, {}).get(path_)
                        if hv is not None and hv[0] == "i":
                            for bs in backs:
                                bv = bs.store.get(root_, {}).get(path_)
                                if bv is not None and bv[0] == "i":
                                    self.link(hv[1], bv[1])
                    cands = self.gen_candidates(st_in, fr, M, reads, bodies_seen, backs, head=h)
                    n0 = len(cands)
                    cands = [c for c in cands if self.cand_holds(st_in, c)]
                    if self.opts.get("debug_loops"):
                        print("LOOP", body.path, h, "gen", n0, "entry-ok", len(cands), [self.show_cand(c) for c in cands][:40])
                    phase[0] = 1
                    if cands:
                        continue  # re-run assuming them
                    head_state = S
                    break
                keep = self.local_houdini(S, backs, cands) if not self.opts.get("no_local") else [c for c in cands if all(self.cand_holds(bs, c) for bs in backs)]
                if len(keep) != len(cands):
                    if self.opts.get("debug_loops"):
                        print("LOOP", body.path, h, "it", it, "dropped", [self.show_cand(c) for c in cands if c not in keep][:40], "backs", len(backs))
                    cands = keep
                    continue
                head_state = S
                break
        finally:
            self.record = saved_record
            self.loop_stack.pop()
        self.loop_cache[key] = {"M": set(M), "cands": list(cands or []), "sig": ctxsig, "reads": set(reads),
                                "bodies": set(bodies_seen)}
        if self.record:
            self.loop_invariants[(fr.id, h)] = {
                "body": body.path, "head": h, "iterations": it,
                "modified": sorted(short_root(m[0]) + "".join("." + short_elem(x) for x in m[1]) for m in M),
                "invariants": [self.show_cand(c) for c in (cands or [])]}
        final = head_state.fork()
        final.writes = st_in.writes
        final.reads = st_in.reads
        if st_in.writes is not None:
            st_in.writes |= set(M)
        if st_in.reads is not None:
            st_in.reads |= reads
        for bs_ in self.body_sets:
            bs_ |= bodies_seen
        self.loop_stack.append((key, [1]))
        try:
            exits, backs = self.exec_blocks(fr, h, final, L, h)
        finally:
            self.loop_stack.pop()
        if self.record:
            self.loop_backs.setdefault((fr.id, h), []).extend(backs)
            self.loop_heads[(fr.id, h)] = head_state
        return exits

    def tightest(self, cands):
        best = {}
        pair_best = {}
        cons_ = [c for c in cands if c[0] == "cons"]
        for c in cands:
            if c[0] == "cons":
                continue
            _, a, b, k = c
            if a is not None and b is None:
                key = ("ub", a)
                if key not in best or k < best[key][3]:
                    best[key] = c
            elif a is None and b is not None:
                key = ("lb", b)
                if key not in best or k < best[key][3]:
                    best[key] = c
            else:
                key = (a, b)
                if key not in pair_best or k < pair_best[key][3]:
                    pair_best[key] = c
        return list(best.values()) + list(pair_best.values()) + cons_

    def local_houdini(self, S, backs, cands):
        """greatest subset of cands that is preserved by the recorded back-edge states, computed without
        re-executing the loop body: the head assumptions inside each back state are replaced by the
        current (shrinking) assumption set. The caller re-runs the body afterwards, so paths that
        were pruned under the stronger assumptions are still re-checked."""
        assumed = set(getattr(S, "assumed", ()) or ())
        stripped = []
        for bs in backs:
            c2 = bs.ctx.copy()
            c2.hyps = [c for c in c2.hyps if c not in assumed]
            stripped.append(c2)
        A = list(cands)
        guard = 0
        while True:
            guard += 1
            tight = []
            for c in self.tightest(A):
                e = self.cand_expr(S, c)
                if e is not None:
                    tight.append(e)
            fails = set()
            for bs, base in zip(backs, stripped):
                ctx2 = base.copy()
                for e in tight:
                    ctx2.add_hyp(e)
                for c in A:
                    if c in fails:
                        continue
                    e = self.cand_expr(bs, c)
                    self.fm_calls += 1
                    if e is None or not ctx2.entails(e):
                        fails.add(c)
            if self.opts.get("debug_loops"):
                print("  LOCAL it", guard, "fails", [self.show_cand(c) for c in fails][:30])
            if not fails or guard > 200:
                return A
            A = [c for c in A if c not in fails]

    def subtree_differs(self, a, b, root, path):
        da = a.store.get(root, {})
        db = b.store.get(root, {})
        n = len(path)
        ka = {k: v for k, v in da.items() if len(k) >= n and k[:n] == path}
        kb = {k: v for k, v in db.items() if len(k) >= n and k[:n] == path}
        if not ka and not kb:
            return False
        if not ka:
            # nothing stored at the head: for a local of this frame it was not live-in (first written
            # in the body); for memory behind pointers the head value is the lazily-created unknown
            for m in range(n - 1, -1, -1):
                if path[:m] in da:
                    return True
            return root[0] != "L"
        return ka != kb

    def normalise_mod(self, S, W):
        """drop entries covered by an ancestor entry"""
        out = set()
        for (root, path) in W:
            covered = False
            for n in range(len(path)):
                if (root, path[:n]) in W:
                    covered = True
                    break
            if not covered:
                out.add((root, path))
        return out

    def make_head(self, st_in, fr, h, M, cands, loop_frame=None):
        """head state: st_in with modified places havocked, plus candidate invariants"""
        if loop_frame is not None:
            fr = Frame(loop_frame, fr.body, fr.binding, fr.depth, fr.region)
        S = st_in.fork()
        S.writes = None
        S.reads = None
        symmap = {}
        for (root, path) in sorted(M, key=repr):
            d = S.store.get(root)
            if d is None:
                d = S.store[root] = {}
            n = len(path)
            keys = [k for k in d if len(k) >= n and k[:n] == path]
            if not keys:
                keys = [path]
            for k in keys:
                old = d.get(k)
                if old is not None and old[0] in ("i", "b"):
                    rng = None
                    if old[0] == "b":
                        rng = (0, 1)
                    else:
                        sti = self.static_type(root, k)
                        rng = self.type_range(sti) if sti is not None else None
                        if rng is None:
                            rng = self.bounds_type(old)
                    s = self.named(("phi", fr.id, h, root, k), rng)
                    if old[0] == "i":
                        self.link(lin.var(s), old[1])
                    d[k] = I(lin.var(s))
                elif old is not None and old[0] == "r":
                    # references re-pointed inside a loop: keep if never changes target, else unknown
                    d[k] = ("r", ("P", ("phi", fr.id, h, root, k)), (), old[3])
                else:
                    sti = self.static_type(root, k) if old is None else None
                    if root == ("G",):
                        s = self.named(("phi", fr.id, h, root, k), (0, 1))
                        d[k] = I(lin.var(s))
                    elif k and k[-1] in ("$len", "$discr"):
                        s = self.named(("phi", fr.id, h, root, k), (0, ISIZE_MAX) if k[-1] == "$len" else (0, 1 << 16))
                        if old is None:
                            lz = self.lazy_init(root, k, None)
                            if lz[0] == "i":
                                self.link(lin.var(s), lz[1])
                        d[k] = I(lin.var(s))
                    elif sti is not None and self.prog.types[sti]["k"] in ("int", "bool", "char"):
                        s = self.named(("phi", fr.id, h, root, k), self.type_range(sti))
                        lz = self.lazy_init(root, k, sti)
                        if lz[0] == "i":
                            self.link(lin.var(s), lz[1])
                        d[k] = I(lin.var(s))
                    else:
                        d[k] = T(("phi", fr.id, h, root, k))
        # assume the candidates; among constant bounds of one place only the tightest (the others follow)
        best = {}
        rest = []
        cons_ = [c for c in cands if c[0] == "cons"]
        for c in cands:
            if c[0] == "cons":
                continue
            _, a, b, k = c
            if a is not None and b is None:
                key = ("ub", a)
                if key not in best or k < best[key][3]:
                    best[key] = c
            elif a is None and b is not None:
                key = ("lb", b)
                if key not in best or k < best[key][3]:
                    best[key] = c
            else:
                rest.append(c)
        pair_best = {}
        for c in rest:
            _, a, b, k = c
            key = (a, b)
            if key not in pair_best or k < pair_best[key][3]:
                pair_best[key] = c
        if cons_:
            cc = dict(st_in.consC)
            for c in cons_:
                _, a_, b_, (sign_, dr_, lk_) = c
                va = self.bool_to_int(st_in, self.read(st_in, a_[0], a_[1]))
                vb = self.bool_to_int(st_in, self.read(st_in, b_[0], b_[1]))
                if va[0] == "i" and vb[0] == "i":
                    cc[(lk_, a_, b_, sign_)] = lin.add(va[1], lin.scale(vb[1], sign_))
            S.consC = cc
        assumed = []
        for c in list(best.values()) + list(pair_best.values()) + cons_:
            e = self.cand_expr(S, c)
            if e is not None:
                S.ctx.add_hyp(e)
                assumed.append(e)
        S.assumed = tuple(assumed)
        return S, symmap

    def bounds_type(self, v):
        """range for the havocked copy of an int value: union of ranges of its symbols if single symbol, else None"""
        e = v[1]
        if len(e[1]) == 1 and e[0] == 0 and e[1][0][1] == 1:
            return self.ranges.get(e[1][0][0])
        if lin.is_const(e):
            return None
        return None

    # candidates: ('le', placeA|None, placeB|None, k)  meaning  A - B <= k  (None = 0)
    def gen_candidates(self, st_in, fr, M, reads, bodies_seen, backs=(), head=None):
        ks = set([0, 1])
        for cp, cv in self.prog.consts.items():
            if cv.get("val") is not None and abs(int(cv["val"])) < (1 << 40):
                ks.add(int(cv["val"]))
        for bp in bodies_seen:
            ks |= self.body_consts.get(bp, set())
        consts = set()
        for k in ks:
            consts.update((k - 1, k, k + 1))
        consts = sorted(consts)
        ints_M = []
        for (root, path) in sorted(M, key=repr):
            d = st_in.store.get(root, {})
            n = len(path)
            found = False
            for k, v in d.items():
                if len(k) >= n and k[:n] == path:
                    found = True
                    if v[0] in ("i", "b"):
                        ints_M.append((root, k))
            if not found and root == ("G",):
                ints_M.append((root, path))
            elif not found and "E" not in path:
                sti = self.static_type(root, path)
                if (sti is not None and self.prog.types[sti]["k"] in ("int", "bool", "char")) or (path and path[-1] == "$len"):
                    ints_M.append((root, path))
        Y = []
        for (root, path) in sorted(reads, key=repr):
            if "E" in path:
                continue
            d = st_in.store.get(root)
            v = d.get(path) if d is not None else None
            if v is not None and v[0] == "i":
                if (root, path) not in Y:
                    Y.append((root, path))
            elif v is None and path and path[-1] == "$len" and root[0] != "L":
                if (root, path) not in Y:
                    Y.append((root, path))
            elif v is None and root[0] != "L" and path and path[-1] not in ("$discr", "$secs"):
                # never written so far: its value is the deterministic lazily-created unknown
                sti = self.static_type(root, path)
                if sti is not None and self.prog.types[sti]["k"] == "int" and self.lazy_init(root, path, sti)[0] == "i":
                    if (root, path) not in Y:
                        Y.append((root, path))
        for m in ints_M:
            if m not in Y:
                Y.append(m)
        cands = []
        for m in ints_M:
            if self.is_bool_place(m[0], m[1]):
                cands.append(("le", m, None, 0))
                cands.append(("le", None, m, -1))
                continue
            for c in (self.thresholds(m, st_in, backs) if m[0] != ("G",) else [0, 1]):
                cands.append(("le", m, None, c))
                cands.append(("le", None, m, -c))
            for y in Y:
                if y == m:
                    continue
                yb = self.is_bool_place(y[0], y[1])
                if m[0] == ("G",):
                    # ghosts are only related to program booleans and other ghosts
                    if not (yb or y[0] == ("G",)):
                        continue
                elif yb or y[0] == ("G",):
                    continue
                if not self.related(backs, st_in, m, y):
                    continue
                for k in (-1, 0, 1):
                    cands.append(("le", m, y, k))
                    cands.append(("le", y, m, k))
        # conservation: for two modified integer places, their sum / difference keeps its entry value
        # (counting loops: `len - i`, `len + popped`)
        plain = [m for m in ints_M if m[0] != ("G",) and not self.is_bool_place(m[0], m[1])]
        if 2 <= len(plain) <= 8:
            for i_, m1 in enumerate(plain):
                for m2 in plain[i_ + 1:]:
                    v1 = self.read(st_in, m1[0], m1[1])
                    v2 = self.read(st_in, m2[0], m2[1])
                    if v1[0] != "i" or v2[0] != "i":
                        continue
                    for sign in (1, -1):
                        for dr in (1, -1):
                            cands.append(("cons", m1, m2, (sign, dr, (fr.id, head))))
        if self.opts.get("debug_loops"):
            print("  CANDVARS M:", [self.show_cand(("le", m, None, 0)) for m in ints_M], "Y:", [self.show_cand(("le", y, None, 0)) for y in Y])
        # dedupe
        seen = set()
        out = []
        for c in cands:
            if c not in seen:
                seen.add(c)
                out.append(c)
        return out

    def lfind(self, x):
        p = self.luf
        while p.get(x, x) != x:
            p[x] = p.get(p[x], p[x])
            x = p[x]
        return x

    def link(self, ea, eb):
        for sa, _ in ea[1]:
            for sb, _ in eb[1]:
                if sa != sb:
                    self.links.add((sa, sb) if sa < sb else (sb, sa))
                    ra, rb = self.lfind(sa), self.lfind(sb)
                    if ra != rb:
                        self.luf[ra] = rb

    def note_const(self, e, c):
        if abs(c) >= (1 << 40):
            return
        for s_, _ in e[1]:
            self.sym_consts.setdefault(s_, set()).add(c)

    def thresholds(self, m, st_in, backs):
        """constants worth trying as bounds of place m: those its value (or anything it was compared with /
        derived from) is compared against, its entry value, unit bounds known on entry; each +-1"""
        syms = set()
        ks = set([0, 1])
        for stx in [st_in] + list(backs):
            v = self.read(stx, m[0], m[1])
            if v[0] == "i":
                syms.update(s_ for s_, _ in v[1][1])
                if not v[1][1]:
                    ks.add(v[1][0])
        roots = set(self.lfind(s_) for s_ in syms)
        for s_, cs in self.sym_consts.items():
            if s_ in syms or self.lfind(s_) in roots:
                ks |= cs
        for c in st_in.ctx.cons + st_in.ctx.hyps:
            if len(c[1]) == 1 and abs(c[1][0][1]) == 1 and (c[1][0][0] in syms or self.lfind(c[1][0][0]) in roots):
                ks.add(-c[0] * c[1][0][1] if c[1][0][1] == 1 else c[0])
        for s_ in list(syms):
            r = self.ranges.get(s_)
        out = set()
        for k in ks:
            if abs(k) < (1 << 40):
                out.update((k - 1, k, k + 1))
        return sorted(out)

    def components(self, st):
        """union-find over the symbols of a state's constraints and of the global relevance links"""
        uf = getattr(st.ctx, "_uf", None)
        if uf is not None and uf[0] == (len(st.ctx.cons), len(st.ctx.hyps), len(st.ctx.neqs), len(self.links)):
            return uf[1]
        parent = {}

        def find(x):
            while parent.get(x, x) != x:
                parent[x] = parent.get(parent[x], parent[x])
                x = parent[x]
            return x

        for c in st.ctx.cons + st.ctx.hyps + st.ctx.neqs:
            ss = [s_ for s_, _ in c[1]]
            for s_ in ss:
                parent.setdefault(s_, s_)
            for s_ in ss[1:]:
                ra, rb = find(ss[0]), find(s_)
                if ra != rb:
                    parent[ra] = rb
        for (a_, b_) in self.links:
            parent.setdefault(a_, a_)
            parent.setdefault(b_, b_)
            ra, rb = find(a_), find(b_)
            if ra != rb:
                parent[ra] = rb
        comp = {s_: find(s_) for s_ in list(parent)}
        try:
            st.ctx._uf = ((len(st.ctx.cons), len(st.ctx.hyps), len(st.ctx.neqs), len(self.links)), comp)
        except AttributeError:
            pass
        return comp

    def related(self, backs, st_in, m, y):
        """could a relation between places m and y be derivable at some back edge? (their values share
        a symbol or are connected through constraints)"""
        for bs in (list(backs) or [st_in]):
            vm = self.bool_to_int(bs, self.read(bs, m[0], m[1]))
            vy = self.bool_to_int(bs, self.read(bs, y[0], y[1]))
            if vm[0] != "i" or vy[0] != "i":
                continue
            sm = [s_ for s_, _ in vm[1][1]]
            sy = [s_ for s_, _ in vy[1][1]]
            if not sm or not sy:
                return True  # a constant side: relation may follow from bounds alone
            if set(sm) & set(sy):
                return True
            comp = self.components(bs)
            cm = set(comp.get(s_, ("solo", s_)) for s_ in sm)
            cy = set(comp.get(s_, ("solo", s_)) for s_ in sy)
            if cm & cy:
                return True
        return False

    def cand_expr(self, st, c):
        _, a, b, k = c
        if c[0] == "cons":
            # conservation: dir * (a + sign * b - C) <= 0 with C the value of a + sign * b on loop entry
            sign, dr, lk = k
            va = self.bool_to_int(st, self.read(st, a[0], a[1]))
            vb = self.bool_to_int(st, self.read(st, b[0], b[1]))
            if va[0] != "i" or vb[0] != "i":
                return None
            C = st.consC.get((lk, a, b, sign))
            if C is None:
                # not inside this loop's analysis yet (the entry state): the entry value is, by definition, conserved
                return lin.ZERO if False else lin.sub(lin.const(0), lin.const(0))
            e = lin.sub(lin.add(va[1], lin.scale(vb[1], sign)), C)
            return lin.scale(e, dr)
        ea = lin.ZERO
        eb = lin.ZERO
        if a is not None:
            va = self.bool_to_int(st, self.read(st, a[0], a[1]))
            if va[0] != "i":
                return None
            ea = va[1]
        if b is not None:
            vb = self.bool_to_int(st, self.read(st, b[0], b[1]))
            if vb[0] != "i":
                return None
            eb = vb[1]
        return lin.sub(lin.sub(ea, eb), lin.const(k))

    def bool_to_int(self, st, v):
        """a stored symbolic bool whose truth value the state decides, as the integer 0 / 1"""
        if v[0] == "b":
            self.fm_calls += 2
            if self.prove_bool(st, v[1], True):
                return ICONST(1)
            if self.prove_bool(st, v[1], False):
                return ICONST(0)
        return v

    def cand_holds(self, st, c):
        e = self.cand_expr(st, c)
        if e is None:
            return False
        self.fm_calls += 1
        return st.ctx.entails(e)

    def assume_cand(self, st, c):
        e = self.cand_expr(st, c)
        if e is not None:
            st.ctx.add(e)

    def show_cand(self, c):
        _, a, b, k = c
        def nm(p):
            return "0" if p is None else short_root(p[0]) + "".join("." + short_elem(x) for x in p[1])
        if c[0] == "cons":
            return "%s %s %s %s entry value" % (nm(a), "+" if k[0] > 0 else "-", nm(b), "<=" if k[1] > 0 else ">=")
        return "%s - %s <= %d" % (nm(a), nm(b), k)

    # ---- one block
    def exec_block(self, fr, bb, st):
        body = fr.body
        if self.body_sets:
            self.body_sets[-1].add(body.path)
        blk = body.blocks[bb]
        node = (fr.id, bb)
        for s in blk["stmts"]:
            k = s["k"]
            if k == "assign":
                root, path, ti = self.resolve(st, fr, s["place"])
                sub = self.eval_rvalue(st, fr, s["rv"], ti, node)
                if self.record and s["rv"]["k"] == "discr" and not path:
                    r2, p2, _ = self.resolve(st, fr, s["rv"]["place"])
                    self.discr_src[root] = (r2, p2)
                v = sub.get(())
                if v is not None and v[0] == "pair":
                    # checked arithmetic result tuple
                    self.write_subtree(st, root, path, {(0,): v[1], (1,): v[2], ("$ovf",): T(("ovf", v[3]))}, node)
                else:
                    self.write_subtree(st, root, path, sub, node)
            elif k == "setdiscr":
                root, path, ti = self.resolve(st, fr, s["place"])
                ap = self.prog.adt_of(ti) if ti is not None else None
                self.write(st, root, path + ("$discr",), ICONST(self.prog.variant_discr(ap, s["variant"]) if ap else s["variant"]), node)
        t = blk["term"]
        k = t["k"]
        if k == "goto":
            return [(t["t"], st)]
        if k == "return":
            return [("return", st)]
        if k == "drop":
            return [(t["t"], st)]
        if k in ("unreachable", "resume", "terminate"):
            return []
        if k == "assert":
            return self.exec_assert(fr, bb, st, t)
        if k == "switch":
            return self.exec_switch(fr, bb, st, t)
        if k == "call":
            return self.exec_call(fr, bb, st, t)
        self.warnings.append(("unknown-terminator", body.path, bb, k))
        return []

    def exec_assert(self, fr, bb, st, t):
        v, ti = self.eval_operand(st, fr, t["cond"])
        exp = t["expected"]
        msg = t["msg"]
        kind = msg["kind"]
        detail = kind + (":" + msg["op"] if "op" in msg else "")
        b = self.to_bool(v)
        ok = self.prove_bool(st, b, exp)
        residual = ""
        if not ok:
            residual = "cannot show %s == %s" % (self.show_bool(b), exp)
        self.oblige(st, fr, bb, "assert", detail, ok, residual)
        self.assume_bool(st, b, exp)
        return [(t["t"], st)]

    def show_bool(self, b):
        if b[0] == "cmp":
            return "(%s) %s (%s)" % (lin.show(b[2]), b[1], lin.show(b[3]))
        if b[0] in ("and", "or"):
            return "(%s %s %s)" % (self.show_bool(b[1]), b[0], self.show_bool(b[2]))
        if b[0] == "not":
            return "!" + self.show_bool(b[1])
        return repr(b)[:80]

    def exec_switch(self, fr, bb, st, t):
        v, ti = self.eval_operand(st, fr, t["op"])
        if self.record:
            pl = t["op"].get("copy") or t["op"].get("move")
            if pl is not None and not pl["p"]:
                src = self.discr_src.get(("L", fr.id, pl["l"]))
                if src is not None:
                    self.switch_src.setdefault((fr.id, bb), set()).add(src)
        targets = [(int(a), b) for a, b in t["targets"]]
        other = t["otherwise"]
        is_bool = ti is not None and self.prog.types[ti]["k"] == "bool"
        out = []
        node = (fr.id, bb)

        src_aids = st.aids

        def note(tb, cond):
            if self.record:
                self.edge_conds.setdefault((node, (fr.id, tb)), []).append(cond)
                for an in src_aids:
                    self.arg_conds.setdefault((an, (fr.id, tb)), []).append(cond)

        if v[0] == "b":
            b = v[1]
            # bool switch: targets typically [(0, bbF)] otherwise bbT
            for val, tb in targets:
                s2 = st.fork()
                self.assume_bool(s2, b, bool(val))
                if not self.dead(s2, b, bool(val), st):
                    out.append((tb, s2))
                    note(tb, ("bool", b, bool(val)))
                    for h in self.edge_hooks:
                        h(self, s2, fr, bb, tb, ("bool", b, bool(val)))
            s2 = st
            vals = [val for val, _ in targets]
            if is_bool and len(vals) == 1:
                self.assume_bool(s2, b, not bool(vals[0]))
                if not self.dead(s2, b, not bool(vals[0]), None):
                    out.append((other, s2))
                    note(other, ("bool", b, not bool(vals[0])))
                    for h in self.edge_hooks:
                        h(self, s2, fr, bb, other, ("bool", b, not bool(vals[0])))
            elif len(vals) < 2:
                out.append((other, s2))
            if self.record:
                self.switch_log.append(((fr.id, bb), v, [x[0] for x in out]))
            return out
        e = self.as_lin(v, ti)
        c = e[0] if lin.is_const(e) else None
        if c is not None:
            for val, tb in targets:
                if val == c:
                    note(tb, ("const", c))
                    return [(tb, st)]
            note(other, ("const", c))
            return [(other, st)]
        for val, tb in targets:
            self.note_const(e, val)
            s2 = st.fork()
            cons = [lin.le(e, lin.const(val)), lin.le(lin.const(val), e)]
            self.fm_calls += 1
            if s2.ctx.infeasible_with(cons):
                continue
            for cc in cons:
                s2.ctx.add(cc)
            out.append((tb, s2))
            note(tb, ("eq", e, val))
            for h in self.edge_hooks:
                h(self, s2, fr, bb, tb, ("eq", e, val))
        # otherwise
        s2 = st
        for val, _ in targets:
            s2.ctx.add_neq(e, lin.const(val))
        rng = None
        # feasibility of otherwise: if the value's range (tightened by what earlier edges established about this very
        # value, e.g. a previous switch on the same discriminant) is exactly covered by the targets
        lo, hi = s2.ctx.tight_bounds(e)
        feasible = True
        if lo is not None and hi is not None and hi - lo < 64:
            vals = set(val for val, _ in targets)
            if all(x in vals for x in range(lo, hi + 1)):
                feasible = False
        if feasible:
            self.fm_calls += 1
            if s2.ctx.infeasible_with([lin.le(e, e)]):
                feasible = False
        if feasible:
            out.append((other, s2))
            note(other, ("neq", e, tuple(val for val, _ in targets)))
            for h in self.edge_hooks:
                h(self, s2, fr, bb, other, ("neq", e, tuple(val for val, _ in targets)))
        if self.record:
            self.switch_log.append(((fr.id, bb), v, [x[0] for x in out]))
        return out

    def fork_bool(self, st, v):
        """[(truth, state)] for the feasible truth values of a bool value (used by std models)"""
        if v is None:
            return [(True, st.fork()), (False, st)]
        if v[0] == "b":
            b = v[1]
            outs = []
            s2 = st.fork()
            self.assume_bool(s2, b, True)
            if not self.dead(s2, b, True, st):
                outs.append((True, s2))
            self.assume_bool(st, b, False)
            if not self.dead(st, b, False, None):
                outs.append((False, st))
            return outs
        if v[0] == "i":
            k = const_of(v)
            if k is not None:
                return [(bool(k), st)]
            outs = []
            for truth in (True, False):
                s2 = st.fork() if truth else st
                cons = [lin.le(v[1], lin.const(int(truth))), lin.le(lin.const(int(truth)), v[1])]
                if s2.ctx.infeasible_with(cons):
                    continue
                for cc in cons:
                    s2.ctx.add(cc)
                outs.append((truth, s2))
            return outs
        return [(True, st.fork()), (False, st)]

    def dead(self, st, b, truth, _):
        if st.ctx._dead:
            return True
        cons = self.bool_cons(b, truth)
        if cons is None:
            if b[0] == "cmp" and ((b[1] == "Ne" and truth) or (b[1] == "Eq" and not truth)):
                # a != c: dead iff a == c entailed
                self.fm_calls += 1
                return st.ctx.entails_eq(b[2], b[3])
            return False
        # constraints already added; check feasibility of their cone
        self.fm_calls += 1
        return st.ctx.infeasible_with(cons)

    # ---- calls
    def exec_call(self, fr, bb, st, t):
        prog = self.prog
        fn = t["fn"]
        name, targets, kind = prog.callee_targets(fn, fr.binding)
        body = fr.body
        node = (fr.id, bb)
        args = []
        for a in t["args"]:
            sub, ti = self.eval_operand_sub(st, fr, a)
            args.append((sub, ti))
        droot, dpath, dti = self.resolve(st, fr, t["dest"])
        ev = None
        if self.record:
            ev = Event()
            ev.idx = len(self.events)
            ev.ctx = fr.id
            ev.body = body.path
            ev.bb = bb
            ev.loc = body.loc(bb)
            ev.callee = name
            ev.kind = kind
            ev.fn = fn
            ev.args = [a[0].get((), ("agg", a[0])) for a in args]
            ev.argsnap = [self.snapshot_arg(st, a[0]) for a in args]
            ev.dest = (droot, dpath)
            ev.region = fr.region
            ev.inlined = False
            ev.ret = None
            ev.node = node
            ev.anode = st.aids[0] if st.aids else None
            ev.gargs = fn.get("gargs", [])
            ev.cond = None
            self.events.append(ev)
        # closure invocation through Fn* traits
        base = strip_generics(name)
        if kind in ("ext", "dyn") and base.rsplit("::", 1)[-1] in ("call", "call_mut", "call_once") and fn.get("gargs"):
            cdef = self.closure_def_of_type(fn["gargs"][0])
            if cdef is not None and cdef in prog.bodies:
                return self.inline_closure(fr, bb, st, t, cdef, args, (droot, dpath, dti), ev)
        if kind == "direct" and len(targets) == 1 and targets[0] not in self.no_inline and fr.depth < self.max_depth:
            for h in self.call_hooks:
                h(self, st, fr, bb, base, args, ev, t)
            callee = prog.bodies[targets[0]]
            if any(f[1] == callee.path for f in fr.id if isinstance(f, tuple) and len(f) > 1 and f[0] == "call"):
                self.warnings.append(("recursion-cut", callee.path))
            else:
                return self.inline(fr, bb, st, t, callee, args, (droot, dpath, dti), ev, fn)
        if kind == "ctor":
            ap, vi = prog.ctor[name]
            out = {}
            a = prog.adts[ap]
            basep = ()
            if a["kind"] == "enum":
                out[("$discr",)] = ICONST(prog.variant_discr(ap, vi))
                basep = (("v", vi),)
            if a["kind"] != "enum" and len(args) == 1 and prog.transparent_adt(ap):
                out = dict(args[0][0])
            else:
                for i, (sub, _) in enumerate(args):
                    for rel, v in sub.items():
                        out[basep + (i,) + rel] = v
            self.write_subtree(st, droot, dpath, out, node)
            return [(t["t"], st)] if t.get("t") is not None else []
        # std / dyn / unresolved: model
        for h in self.call_hooks:
            h(self, st, fr, bb, base, args, ev, t)
        outs = None
        if self.models is not None:
            outs = self.models.apply(self, st, fr, bb, t, base, name, args, (droot, dpath, dti), ev, kind)
        if outs is None:
            outs = self.default_call(st, fr, bb, t, base, args, (droot, dpath, dti), ev, kind)
        res = []
        for s2 in outs:
            for h in self.post_call_hooks:
                h(self, s2, fr, bb, base, args, ev, t)
            if t.get("t") is not None:
                res.append((t["t"], s2))
        return res

    def snapshot_arg(self, st, sub):
        """deep-ish snapshot of what a reference argument points to"""
        v = sub.get(())
        if v is not None and v[0] == "r":
            tgt = self.subtree(st, v[1], v[2])
            if len(tgt) > 200:
                return None
            out = dict(tgt)
            # one more level: what the references stored inside point to (key + ('*',) + relative path)
            n_extra = 0
            for k, vv in list(tgt.items()):
                if vv[0] == "r" and "E" not in vv[2] and n_extra < 40:
                    inner = self.subtree(st, vv[1], vv[2])
                    if len(inner) <= 24:
                        n_extra += 1
                        for k2, v2 in inner.items():
                            out[k + ("*",) + k2] = v2
            return out
        if v is None:
            return dict(sub)
        return None

    def synthetic_call_event(self, fr, bb, st, callee_path, args, dest):
        """event for a crate-local call that MIR does not spell out at this node (a function passed by name to a combinator,
        the FromStr impl behind str::parse::<T>)"""
        if not self.record:
            return None
        ev = Event()
        ev.idx = len(self.events)
        ev.ctx = fr.id
        ev.body = fr.body.path
        ev.bb = bb
        ev.loc = fr.body.loc(bb)
        ev.callee = callee_path
        ev.kind = "direct"
        ev.fn = {"name": callee_path}
        ev.args = [a_[0].get((), ("agg", a_[0])) for a_ in args]
        ev.argsnap = [self.snapshot_arg(st, a_[0]) for a_ in args]
        ev.dest = dest
        ev.region = fr.region
        ev.inlined = False
        ev.ret = None
        ev.node = (fr.id, bb)
        ev.anode = st.aids[0] if st.aids else None
        ev.gargs = []
        ev.cond = None
        self.events.append(ev)
        return ev

    def invoke_callable(self, fr, bb, st, nxt, fsub, fti, arg_subs):
        """Call a closure / fn-item VALUE from inside a std model (Option/Result combinators ...):
        crate-local bodies are inlined like any other call, anything else is an uninterpreted application.
        Returns [(state, result subtree)]."""
        prog = self.prog
        node = (fr.id, bb)
        k = None
        bti = None
        if fti is not None:
            bti = prog.peel_refs(fti)
            k = prog.types[bti]["k"]
        self.symctr += 1
        tmp = ("L", fr.id, ("hof", bb, self.symctr))
        t_fake = {"t": nxt}
        outs = None
        vdef = None
        if k not in ("closure", "fndef"):
            # the static type is a type parameter (`F: FnOnce(..)` of a generic helper): the value itself says what it is
            fv = fsub.get(())
            hops = 0
            while fv is not None and fv[0] == "r" and hops < 3:
                fsub = self.subtree(st, fv[1], fv[2])
                fv = fsub.get(())
                hops += 1
            cm = fsub.get(("$closure",))
            if cm is not None and cm[0] == "t" and cm[1][0] == "closure":
                vdef, k = cm[1][1], "closure"
            elif fv is not None and fv[0] == "fn" and len(fv) > 1:
                vdef, k = fv[1], "fndef"
        if k == "closure" and (vdef or prog.types[bti]["def"]) in prog.bodies and fr.depth < self.max_depth:
            cdef = vdef or prog.types[bti]["def"]
            if vdef is not None:
                fti = None
            callee = prog.bodies[cdef]
            tup = {}
            for i, sub in enumerate(arg_subs):
                for kk, v in sub.items():
                    tup[(i,) + kk] = v
            outs = self.inline_closure(fr, bb, st, t_fake, cdef, [(fsub, fti), (tup, None)], (tmp, (), callee.local_ty(0)), None)
        elif k == "fndef" and (vdef or prog.types[bti]["def"]) in getattr(prog, "ctor", {}):
            # a tuple-variant / tuple-struct constructor used as a function value: `.map(Packet::Ack)`
            ap, vi = prog.ctor[vdef or prog.types[bti]["def"]]
            out = {}
            a = prog.adts[ap]
            basep = ()
            if a["kind"] == "enum":
                out[("$discr",)] = ICONST(prog.variant_discr(ap, vi))
                basep = (("v", vi),)
            if a["kind"] != "enum" and len(arg_subs) == 1 and prog.transparent_adt(ap):
                return [(st, dict(arg_subs[0]))]
            for i, sub in enumerate(arg_subs):
                for rel, v in sub.items():
                    out[basep + (i,) + rel] = v
            return [(st, out)]
        elif k == "fndef" and (vdef or prog.types[bti]["def"]) in prog.bodies and fr.depth < self.max_depth:
            callee = prog.bodies[vdef or prog.types[bti]["def"]]
            args = [(sub, callee.local_ty(i + 1) if i < callee.arg_count else None) for i, sub in enumerate(arg_subs)]
            # the call of a function passed by name (`.and_then(Opcode::from_u16)`) is a call event like any other
            ev = self.synthetic_call_event(fr, bb, st, callee.path, args, (tmp, ()))
            outs = self.inline(fr, bb, st, t_fake, callee, args, (tmp, (), callee.local_ty(0)), ev, {})
        if outs is not None:
            # the call is conditional: states that do not take it continue directly
            self.inlined_nodes.discard(node)
            res = []
            for (_, s2) in outs:
                sub = self.subtree(s2, tmp, ())
                s2.store.pop(tmp, None)
                res.append((s2, sub))
            return res
        name = vdef or (prog.types[bti].get("def", "?") if bti is not None and k in ("closure", "fndef") else "?")
        argvals = tuple(sub.get((), ("agg", tuple(sorted((repr(kk), v) for kk, v in sub.items())))) for sub in arg_subs)
        if self.record:
            self.unmodelled["<callable> " + str(name)] = self.unmodelled.get("<callable> " + str(name), 0) + 1
        return [(st, {(): T(("app", name, node, argvals))})]

    def summarised_iteration(self, fr, bb, st, nxt, fsub, fti, make_args, adapter=""):
        """Abstract execution of `loop { f(next element) }` for an unknown number of iterations (closure-taking
        iterator adapters: for_each, try_for_each, any, all ...). What the callable may modify is found by probing
        and havocked (loop-head symbols, as for a MIR loop); the callable is then executed once from that state
        (standing for an arbitrary iteration). The construct is recorded as a synthetic loop whose id is
        (frame of the callable, 0): rules treat it like any other loop.
        Returns (loop id or None, state after any number of completed iterations, [(state, result subtree)])."""
        prog = self.prog
        node = (fr.id, bb)
        cdef = None
        if fti is not None:
            bti = prog.peel_refs(fti)
            if prog.types[bti]["k"] in ("closure", "fndef") and prog.types[bti]["def"] in prog.bodies:
                cdef = prog.types[bti]["def"]
        cf = fr.id + (("call", cdef, fr.body.path, bb),) if cdef is not None else None
        saved = self.record
        self.record = False
        M = set()
        before = set(st.store.keys())
        try:
            for _ in range(6):
                probe = st.fork()
                for (root, path) in M:
                    self.havoc(probe, root, path, ("iter-summary", node))
                probe.writes = set()
                probe.reads = set()
                self.invoke_callable(fr, bb, probe, nxt, fsub, fti, make_args(probe))
                W = set()
                for (root, path) in probe.writes:
                    if root[0] == "L" and isinstance(root[1], tuple) and len(root[1]) > len(fr.id) and root[1][:len(fr.id)] == fr.id:
                        continue
                    if root[0] == "L" and root[1] == fr.id and isinstance(root[2], tuple):
                        continue   # temporaries of the model itself
                    if root[0] == "H" and root not in before:
                        continue
                    if root[0] == "P" and isinstance(root[1], tuple) and root[1] and root[1][0] == "elem":
                        continue
                    W.add((root, path))
                W = self.normalise_mod(st, W | M)
                if W == M:
                    break
                M = W
        finally:
            self.record = saved
        if cf is not None:
            head, _ = self.make_head(st, fr, 0, M, [], loop_frame=cf)
            head.writes, head.reads = st.writes, st.reads
            if st.writes is not None:
                st.writes |= set(M)
        else:
            head = st
            for (root, path) in sorted(M, key=repr):
                self.havoc(head, root, path, ("iter-summary", node), node)
        head.aids = st.aids
        exit_state = head.fork()
        outs = self.invoke_callable(fr, bb, head, nxt, fsub, fti, make_args(head))
        if self.record and cf is not None:
            key = (cf, 0)
            self.iter_loops[key] = {"caller": node, "adapter": adapter}
            self.loop_cache[key] = {"M": set(M), "cands": [], "sig": (), "reads": set(), "bodies": set()}
            self.loop_invariants[key] = {"body": cdef, "head": 0, "iterations": 1, "synthetic": adapter,
                                         "modified": sorted(short_root(m[0]) + "".join("." + short_elem(x) for x in m[1]) for m in M), "invariants": []}
            self.loop_heads[key] = exit_state
            self.loop_backs.setdefault(key, [])
        return ((cf, 0) if cf is not None else None), exit_state, outs

    def iteration_continues(self, loop_id, st, exit_state=None):
        """a state that finished one call of the callable and goes on with the next element (back edge of the synthetic
        loop) or with the code after the adapter when the iterator is exhausted (exit_state)"""
        if exit_state is not None:
            exit_state.aids = exit_state.aids + tuple(x for x in st.aids if x not in exit_state.aids)
        if not self.record or loop_id is None:
            return
        cf = loop_id[0]
        self.loop_backs.setdefault(loop_id, []).append(st)
        self.edges.add(((cf, "ret"), (cf, 0), "back"))
        entry = None
        for i in range(len(self.arg_proj) - 1, -1, -1):
            if self.arg_proj[i] == (cf, 0):
                entry = i
                break
        if entry is not None:
            for p_ in st.aids:
                self.arg_edges.add((p_, entry))

    def closure_def_of_type(self, ti):
        prog = self.prog
        ti = prog.peel_refs(ti)
        t = prog.types[ti]
        if t["k"] == "closure":
            return t["def"]
        return None

    def default_call(self, st, fr, bb, t, base, args, dest, ev, kind):
        """opaque result; havoc everything reachable through &mut arguments"""
        droot, dpath, dti = dest
        node = (fr.id, bb)
        argvals = []
        for a in args:
            v0 = a[0].get(())
            if v0 is None:
                argvals.append(("agg", tuple(sorted((repr(k), v) for k, v in a[0].items()))))
            elif v0[0] == "r" and "E" not in v0[2]:
                # provenance through references: what the reference points to, when that is itself a term
                pv = st.store.get(v0[1], {}).get(v0[2])
                argvals.append(("ref", v0, pv) if pv is not None and pv[0] == "t" else v0)
            else:
                argvals.append(v0)
        argvals = tuple(argvals)
        site = (fr.id, bb)
        if self.record:
            self.unmodelled[base] = self.unmodelled.get(base, 0) + 1
        for (sub, ti) in args:
            v = sub.get(())
            if v is not None and v[0] == "r" and v[3]:
                self.havoc(st, v[1], v[2], ("mut-by", base, site), node)
        res = self.opaque_result(("app", base, site, argvals), dti)
        self.write_subtree(st, droot, dpath, {(): res}, node)
        if ev is not None:
            ev.ret = res
        return [st]

    def opaque_result(self, term, dti):
        prog = self.prog
        if dti is not None:
            k = prog.types[dti]["k"]
            if k in ("int", "bool", "char"):
                return I(lin.var(self.named(("ret", term), prog.int_range(dti))))
            if k in ("ref", "ptr"):
                return ("r", ("P", term), (), prog.types[dti].get("mut", False))
            if k == "tuple" and not prog.types[dti]["elems"]:
                return T(("unit", "()"))
        return T(term)

    def havoc(self, st, root, path, why, node=None):
        d = st.store.get(root)
        if d is None:
            d = st.store[root] = {}
        n = len(path)
        for k in [k for k in d if len(k) >= n and k[:n] == path]:
            del d[k]
        self.symctr += 1
        d[path] = T(("havoc", why, self.symctr))
        if st.writes is not None:
            st.writes.add((root, path))
        if self.record and node is not None:
            self.writes_log.append((node, root, path, d[path]))

    def inline(self, fr, bb, st, t, callee, args, dest, ev, fn):
        prog = self.prog
        site = ("call", callee.path, fr.body.path, bb)
        # binding of type parameters for trait-default bodies: Self := the call's self type
        binding = {}
        if fn.get("self_ty") is not None:
            st_ti = fn["self_ty"]
            tt = prog.types[st_ti]
            if tt["k"] == "param" and fr.binding and tt["name"] in fr.binding:
                st_ti = fr.binding[tt["name"]]
            binding["Self"] = st_ti
        # type parameters of the callee := the call's type arguments (a caller's own parameter is looked up in the caller's
        # binding), so that `D::launch(..)` inside `fn start<D: Direction>` resolves to the impl of the type the caller chose
        gargs = fn.get("gargs") or []
        gnames = getattr(callee, "generics", [])
        if gnames and len(gnames) == len(gargs) and fn.get("def") == callee.path:      # (type arguments are those of `def`, not of a resolved impl)
            for nm, ga in zip(gnames, gargs):
                tt = prog.types[ga]
                if tt["k"] == "param":
                    if fr.binding and tt["name"] in fr.binding:
                        binding.setdefault(nm, fr.binding[tt["name"]])
                else:
                    binding.setdefault(nm, ga)
        nf = self.new_frame(fr, callee, site, binding, fr.region)
        for i, (sub, ti) in enumerate(args):
            self.write_subtree(st, ("L", nf.id, i + 1), (), sub, (nf.id, 0))
        if ev is not None:
            ev.inlined = True
        if self.record:
            self.edges.add(((fr.id, bb), (nf.id, 0), "call"))
            self.inlined_nodes.add((fr.id, bb))
        exits, _ = self.exec_blocks(nf, 0, st, None, None)
        droot, dpath, dti = dest
        outs = []
        rets = [(s2) for (tg, s2) in exits if tg == "return"]
        rets = self.maybe_merge_returns(nf, rets, callee)
        for s2 in rets:
            sub = self.subtree(s2, ("L", nf.id, 0), (), callee.local_ty(0))
            self.write_subtree(s2, droot, dpath, sub, (fr.id, bb))
            for h in self.return_hooks:
                h(self, s2, fr, bb, callee, sub)
            if self.record and t.get("t") is not None:
                self.edges.add(((nf.id, "ret"), (fr.id, t["t"]), "return"))
            self.drop_frame(s2, nf.id)
            if t.get("t") is not None:
                outs.append((t["t"], s2))
        if ev is not None and self.record:
            ev.ret = [self_discr(self, s2, droot, dpath) for (_, s2) in outs]
        return outs

    def drop_frame(self, st, fid):
        for r in [r for r in st.store if r[0] == "L" and r[1] == fid]:
            # keep frames that may be referenced from outside (returned references into locals are
            # impossible in safe Rust), so dropping is sound
            del st.store[r]

    def ret_signature(self, st, fid):
        d = st.store.get(("L", fid, 0), {})
        sig = []
        for k, v in d.items():
            if k and k[-1] == "$discr":
                c = const_of(v)
                sig.append((repr(k), c))
        sig.sort()
        return tuple(sig)

    def maybe_merge_returns(self, nf, rets, callee):
        """join return states that agree on every discriminant of the return value and on all memory
        outside the callee's frame (so no side effect is blurred); others stay separate disjuncts"""
        if len(rets) <= 1:
            return rets
        groups = []
        for s in rets:
            key = self.ret_signature(s, nf.id)
            placed = False
            for g in groups:
                if g[0] == key and self.same_outside(g[1][0], s, nf.id):
                    g[1].append(s)
                    placed = True
                    break
            if not placed:
                groups.append((key, [s]))
        out = []
        merged = False
        for key, ss in groups:
            if len(ss) > 1:
                out.append(self.join_states(ss, nf))
                merged = True
            else:
                out.extend(ss)
        if merged and self.record:
            self.warnings.append(("merged-returns", callee.path, len(rets), len(out)))
        return out

    def same_outside(self, a, b, fid):
        sa, sb = a.store, b.store
        for r, da in sa.items():
            if r[0] == "L" and r[1] == fid:
                continue
            if sb.get(r) != da:
                return False
        for r in sb:
            if r[0] == "L" and r[1] == fid:
                continue
            if r not in sa:
                return False
        return True

    def join_states(self, ss, nf):
        if len(ss) == 1:
            return ss[0]
        for s in ss:
            # callee temporaries are dead at the return
            for r in [r for r in s.store if r[0] == "L" and r[1] == nf.id and r[2] != 0]:
                del s.store[r]
        base = ss[0].fork()
        aids = []
        for s_ in ss:
            for x in s_.aids:
                if x not in aids:
                    aids.append(x)
        base.aids = tuple(aids)
        self.symctr += 1
        jid = self.symctr
        changed = []
        for root in list(base.store.keys()):
            d = base.store[root]
            for k in list(d.keys()):
                v = d[k]
                same = True
                for o in ss[1:]:
                    if o.store.get(root, {}).get(k) != v:
                        same = False
                        break
                if not same:
                    if v[0] in ("i", "b"):
                        rng = None
                        if v[0] == "b":
                            rng = (0, 1)
                        else:
                            lo = hi = None
                            ok = True
                            for o in ss:
                                ov = o.store.get(root, {}).get(k)
                                if ov is None or ov[0] != "i":
                                    ok = False
                                    break
                                l2, h2 = o.ctx.bounds(ov[1])
                                if l2 is None or h2 is None:
                                    ok = False
                                    break
                                lo = l2 if lo is None else min(lo, l2)
                                hi = h2 if hi is None else max(hi, h2)
                            if ok:
                                rng = (lo, hi)
                        sym = self.named(("join", jid, root, k), rng)
                        d[k] = I(lin.var(sym))
                        changed.append((root, k, sym))
                    else:
                        d[k] = T(("join", jid, root, k))
        # constraints: those of any state that every state entails (bounded effort)
        cand = []
        seen = set()
        for o in ss:
            for c in o.ctx.cons + o.ctx.hyps:
                if c not in seen:
                    seen.add(c)
                    cand.append(c)
        keep = []
        budget = 400
        for c in cand:
            if all((c in o.ctx.cons or c in o.ctx.hyps) for o in ss):
                keep.append(c)
                continue
            if budget <= 0:
                continue
            budget -= 1
            self.fm_calls += len(ss)
            if all(o.ctx.entails(c) for o in ss):
                keep.append(c)
        base.ctx.cons = keep
        base.ctx.hyps = []
        base.ctx.neqs = [c for c in base.ctx.neqs if all(c in o.ctx.neqs for o in ss[1:])]
        # relate joined integer places to other integer places of the return value (template x - y <= k)
        if changed:
            d0 = base.store.get(("L", nf.id, 0), {})
            others = [(("L", nf.id, 0), k) for k, v in d0.items() if v[0] == "i"]
            for (root, k, sym) in changed:
                if root != ("L", nf.id, 0):
                    continue
                for (r2, k2) in others:
                    if k2 == k:
                        continue
                    for kk in (-1, 0, 1):
                        for (a, b) in (((root, k), (r2, k2)), ((r2, k2), (root, k))):
                            cnd = ("le", a, b, kk)
                            if all(self.cand_holds(o, cnd) for o in ss):
                                self.assume_cand(base, cnd)
        return base

    def inline_closure(self, fr, bb, st, t, cdef, args, dest, ev, as_spawn=False):
        prog = self.prog
        callee = prog.bodies[cdef]
        site = ("call", callee.path, fr.body.path, bb)
        nf = self.new_frame(fr, callee, site, fr.binding, fr.region)
        # arg0: closure (by value or by ref), arg1: tuple of arguments
        env_sub, env_ti = args[0]
        want = prog.types[callee.local_ty(1)]
        v = env_sub.get(())
        if want["k"] in ("ref", "ptr"):
            # body expects a reference to the closure
            cur = env_sub
            # peel extra reference layers: &mut &mut closure
            depth_have = 0
            ti = env_ti
            while ti is not None and prog.types[ti]["k"] in ("ref", "ptr"):
                depth_have += 1
                ti = prog.types[ti]["inner"]
            if depth_have == 0:
                # by value -> materialise and reference it
                self.write_subtree(st, ("L", nf.id, "env"), (), env_sub, None)
                cur = {(): ("r", ("L", nf.id, "env"), (), True)}
            else:
                while depth_have > 1 and v is not None and v[0] == "r":
                    cur = self.subtree(st, v[1], v[2])
                    v = cur.get(())
                    depth_have -= 1
            self.write_subtree(st, ("L", nf.id, 1), (), cur, None)
        else:
            cur = env_sub
            while v is not None and v[0] == "r":
                cur = self.subtree(st, v[1], v[2])
                v = cur.get(())
            self.write_subtree(st, ("L", nf.id, 1), (), cur, None)
        if len(args) > 1:
            tup, _ = args[1]
            for i in range(callee.arg_count - 1):
                sub = {k[1:]: vv for k, vv in tup.items() if k and k[0] == i}
                if not sub:
                    sub = {(): self.project(("tupleargs", (fr.id, bb)), (i,), callee.local_ty(i + 2))}
                self.write_subtree(st, ("L", nf.id, i + 2), (), sub, None)
        if ev is not None:
            ev.inlined = True
            ev.callee = cdef
        if self.record:
            self.edges.add(((fr.id, bb), (nf.id, 0), "call"))
            self.inlined_nodes.add((fr.id, bb))
        exits, _ = self.exec_blocks(nf, 0, st, None, None)
        droot, dpath, dti = dest
        outs = []
        for (tg, s2) in exits:
            if tg != "return":
                continue
            sub = self.subtree(s2, ("L", nf.id, 0), (), callee.local_ty(0))
            self.write_subtree(s2, droot, dpath, sub, (fr.id, bb))
            if self.record and t.get("t") is not None:
                self.edges.add(((nf.id, "ret"), (fr.id, t["t"]), "return"))
            self.drop_frame(s2, nf.id)
            if t.get("t") is not None:
                outs.append((t["t"], s2))
        return outs


def short_name(n):
    """compact rendering of a symbol name for reports"""
    if isinstance(n, str):
        return n
    if isinstance(n, tuple) and n:
        head = n[0]
        if head in ("init", "len", "discr") and len(n) >= 3:
            return "%s(%s%s)" % (head, short_root(n[1]), "".join("." + short_elem(x) for x in n[2]))
        if head == "phi":
            return "phi@bb%s(%s%s)" % (n[2], short_root(n[3]), "".join("." + short_elem(x) for x in n[4]))
        if head in ("proj", "ret", "val", "secs"):
            return "%s(%s)" % (head, short_term(n[1]) + ("".join("." + short_elem(x) for x in n[2]) if len(n) > 2 and isinstance(n[2], tuple) else ""))
        return "%s(...)" % (head,)
    return repr(n)


def short_elem(x):
    if isinstance(x, tuple) and len(x) == 2 and x[0] == "v":
        return "v%d" % x[1]
    return str(x)


def short_root(r):
    if isinstance(r, tuple) and r:
        if r[0] == "L":
            fid = r[1]
            last = fid[-1] if fid else None
            fn = last[1] if isinstance(last, tuple) and len(last) > 1 else "?"
            return "%s::_%s" % (str(fn).split("::")[-1], r[2])
        if r[0] == "P":
            inner = r[1]
            if isinstance(inner, tuple) and inner and inner[0] == "L":
                return "*" + short_root(inner) + "".join("." + short_elem(x) for x in (r[2] if len(r) > 2 else ()))
            return "*(" + short_term(inner) + ")"
        if r[0] == "H":
            return "heap@%s" % (r[1][1],)
        if r[0] == "K":
            return "const"
    return str(r)[:60]


def short_term(t):
    if isinstance(t, tuple) and t:
        if t[0] == "app":
            return "%s(..)" % (str(t[1]).split("::")[-1],)
        if t[0] in ("L", "P", "H", "K"):
            return short_root(t)
        return str(t[0]) + "(..)"
    return str(t)[:40]


def self_discr(eng, st, root, path):
    v = eng.read(st, root, path + ("$discr",))
    return const_of(v) if v[0] == "i" else None


STD_ENUMS = {
    "std::option::Option": 2,
    "std::result::Result": 2,
    "std::ops::ControlFlow": 2,
    "core::option::Option": 2,
    "core::result::Result": 2,
    "core::ops::ControlFlow": 2,
    "std::cmp::Ordering": 3,
    "std::net::IpAddr": 2,
    "std::net::SocketAddr": 2,
    "std::borrow::Cow": 2,
}
