#!/bin/bash
# usage: tools_try_patch.sh <patch.diff> <Cxx> [Cyy ...]   -- applies patch to /repo, runs checks, reverts
set -u
patch="$1"; shift
cd /repo || exit 2
if ! git diff --quiet; then echo "/repo is dirty"; exit 2; fi
git apply "$patch" || { echo "patch does not apply"; exit 2; }
for p in "$@"; do
  (cd /verif && ./check "$p" 2>&1 | grep -v " ok  " | head -${LINES_MAX:-25})
done
git checkout -- . 
