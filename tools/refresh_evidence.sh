#!/bin/bash
# run every claimed check on the clean /repo tree so that committed evidence comes from /repo itself
cd /verif || exit 2
if ! git -C /repo diff --quiet; then echo "/repo is dirty"; exit 2; fi
rc=0
for p in $(python3 -c "import sys; sys.path.insert(0,'/verif'); from tools.claims import CLAIMS; print(' '.join(sorted(CLAIMS)))"); do
  ./check $p > /tmp/refresh_$p.log 2>&1 || { rc=1; echo "FAILED $p"; tail -5 /tmp/refresh_$p.log; }
done
python3-vt - <<'PY'
import json,jsonschema,glob
sch=json.load(open('/root/.vp/EVIDENCE.schema.json'))
m=json.load(open('/verif/MANIFEST.json'))
jsonschema.validate(m,json.load(open('/root/.vp/MANIFEST.schema.json')))
for c in m['checks']:
    e=json.load(open(c['evidence_file']))
    jsonschema.validate(e,sch)
    flag='' if e['level']==c['level_claimed']['category'] else '  LEVEL MISMATCH (claimed %s)'%c['level_claimed']['category']
    print(c['property_id'], e['level'], e['coverage'].get('obligations'), e['coverage'].get('discharged'), 'viol', e.get('violations'), flag)
PY
exit $rc
