#!/usr/bin/env python3
"""Detection matrix: apply each patch to /repo (one at a time, reverted afterwards), run all checks, record which fire.
usage: tools/matrix.py out.json patch1 [patch2 ...]"""
import json
import os
import re
import subprocess
import sys
import time

VERIF = os.path.dirname(os.path.dirname(os.path.abspath(__file__)))
# MATRIX_REPO: a scratch worktree to patch instead of /repo (the checks then run with VERIF_REPO pointing at it)
REPO = os.environ.get("MATRIX_REPO", "/repo")


def main():
    out = sys.argv[1]
    patches = sys.argv[2:]
    res = {}
    if os.path.exists(out):
        res = json.load(open(out))
    for p in patches:
        key = p
        if key in res and res[key].get("applied"):
            continue
        if subprocess.run(["git", "-C", REPO, "diff", "--quiet"]).returncode != 0:
            print(REPO + " dirty; abort")
            return 2
        t0 = time.time()
        r = subprocess.run(["git", "-C", REPO, "apply", p], stdout=subprocess.PIPE, stderr=subprocess.STDOUT, text=True)
        if r.returncode != 0:
            res[key] = {"applied": False, "why": r.stdout[-300:]}
            print(p, "DOES NOT APPLY")
            json.dump(res, open(out, "w"), indent=1)
            continue
        try:
            env = dict(os.environ)
            env["VERIF_REPO"] = REPO
            c = subprocess.run([os.path.join(VERIF, "check"), "all"], cwd=VERIF, env=env, stdout=subprocess.PIPE, stderr=subprocess.STDOUT, text=True)
            fired = sorted(set(re.findall(r"VIOLATION property=(C\d+)", c.stdout)))
            viol = {}
            cur = None
            for line in c.stdout.splitlines():
                m = re.match(r"\s+violation: (C\d+)\.(\S+) (.*)", line)
                if m:
                    viol.setdefault(m.group(1), []).append(m.group(1) + "." + m.group(2) + " " + m.group(3))
            errs = re.findall(r"CHECKER-ERROR.*", c.stdout)
            res[key] = {"applied": True, "fired": fired, "violations": {k: v[:6] for k, v in viol.items()}, "checker_errors": errs[:5],
                        "wall_s": round(time.time() - t0, 1)}
            print(p, "->", fired, errs[:2], "%.0fs" % (time.time() - t0))
        finally:
            subprocess.run(["git", "-C", REPO, "checkout", "--", "."])
        json.dump(res, open(out, "w"), indent=1)
    return 0


if __name__ == "__main__":
    sys.exit(main())
