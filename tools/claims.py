"""What each registered check claims (source of MANIFEST.json)."""
TB = ("Trusted: rustc nightly MIR at mir-opt-level=0 as a faithful rendering of the sources; the curated std models in "
      "analyzer/stdmodel.py; the analyzer itself (tested both ways by selftest/ and seeded/).")

CLAIMS = {
    "C01": {
        "category": "other",
        "text": "Decides the inductive step of 'DATA k carries chunk k' on the MIR of the send worker, for all ACK/fault sequences at once: "
                "ALIGN (chunks drained from the queue front == advance of the block number, as an identity of mod-2^16 normal forms, no other write), "
                "BURST (front-to-back, one DATA per element with the element's bytes, wrapping numbering from the block number), FILL (one File::read per "
                "chunk into a fresh chunk_size buffer, appended, truncated on a short read; the file is an unbuffered File touched only by that read and the "
                "flush's write_all), QUEUE discipline (push_back / drain-from-front / clear only), and 'nothing appended after the short chunk' (ghost eof). "
                "Byte equality at the peer is NOT decided.",
        "design_ref": "DESIGN.md section 4 C01",
        "note": TB + " A-READ. C01.c recognises the one-read-per-chunk idiom of Window::fill; a different (correct) buffering scheme would need the rule extended.",
        "technique": "modular normal forms of value terms from the abstract interpreter + path queries on the inlined supergraph + crate-wide who-may-use scans of MIR",
    },
    "C02": {
        "category": "other",
        "text": "For every arrival history at once: a block is queued only on the true edge of received == last.wrapping_add(1) (last := received is the "
                "only write), the queued bytes are that packet's payload, no ACK is sent while accepted blocks are unwritten (ghost 'dirty' discharged by "
                "the interpreter through all loops), the flush writes every element in order with write_all and clears only after success, ACKs carry the "
                "last accepted number, the sink is an unbuffered truncating File, payloads are bounded by blksize. Kernel write semantics not decided.",
        "design_ref": "DESIGN.md section 4 C02",
        "note": TB,
        "technique": "edge-dominance on the inlined supergraph + ghost-variable typestate discharged by abstract interpretation + abstract interpretation of impl Socket for UdpSocket",
    },
    "C08": {
        "category": "other",
        "text": "Loop invariant len(queue) <= size (= negotiated windowsize) of the sender's loops, every DATA transmission behind the time-out test, a rejected "
                "ACK reaches the loop head without transmitting / re-arming the timer / moving the window / returning, the acceptance guard entails "
                "distance < len(queue) for every windowsize 1..65535 (remove and distance+1 obligations discharged), and the receiver can return to the "
                "receive after a push only through the not-full and not-short edges. Real-time behaviour of the timer is not decided.",
        "design_ref": "DESIGN.md section 4 C08",
        "note": TB,
        "technique": "abstract interpretation (loop invariants, obligations) + dominance / reachability queries on the inlined supergraph",
    },
    "C11": {
        "category": "other",
        "text": "Opcode/ErrorCode conversions are mutually inverse over the whole 16-bit range (exhaustive by case analysis of the return states of "
                "from_u16: Ok entails input == discriminant, Err excludes every declared value, all declared values covered, RFC values 1..6 / 0..7, "
                "as_bytes big-endian); each packet kind is serialised as the RFC sequence of segments (provenance of every concat element); the decoder "
                "reads the same offsets (fixed 0/2/4, each string right after the previous NUL) and accepts the shortest encodings (4-byte DATA / ACK); "
                "OptionType::from_str and as_str are mutually inverse on the four RFC names. decode(encode(p)) == p for all packet values is NOT decided.",
        "design_ref": "DESIGN.md section 4 C11",
        "note": TB,
        "technique": "abstract interpretation of the conversion functions + table/sibling agreement over provenance terms of serializer and decoder",
    },
    "C14": {
        "category": "other",
        "text": "Client-side necessary conditions: the data phase is Worker::send/receive (no second implementation) and the shared worker/listener "
                "clauses of C01/C02/C08/C15 hold; the worker is built from values adopted from the OACK (or RFC defaults after a plain ACK); download: "
                "connect(reply source) and ACK 0 dominate the receive worker, upload: sender does not wait for an OACK reply; download target = "
                "join(receive_directory, file_name(path)), WRQ carries the basename, upload reads the path; an ERROR reply leads to no worker/file and "
                "tftpc prints it. End-to-end byte equality between two processes is NOT decided.",
        "design_ref": "DESIGN.md section 4 C14",
        "note": TB + " Requires the lib facts built with feature `client` and the tftpc bin facts.",
        "technique": "provenance terms and dominance queries on the inlined supergraph of Client::run + composition of worker clauses",
    },
    "C17": {
        "category": "proof",
        "text": "For every argument vector: flag table read off the MIR string comparisons; each arm writes exactly its one documented setting, "
                "spellings share an arm, no arm reads the configuration built so far (=> arms commute, last occurrence wins, order independence); "
                "missing value / unparsable value / missing directory / unknown flag cannot reach an Ok return or the loop's back edge; documented "
                "defaults; directory fallback only after the loop and only when still empty. Same for the client parser.",
        "design_ref": "DESIGN.md section 4 C17",
        "note": TB + " Documented flag table (README / --help) is the specification constant in rules/C17.py.",
        "technique": "effect sets per match arm (commutation argument) + error-propagation check on return / back-edge states of the abstract interpreter",
    },
    "C12": {
        "category": "other",
        "text": "Interleavings by non-interference: no static / shared captured state; single-port: routing key == remote of the per-transfer socket == "
                "requester, registered Sender belongs to that socket, registration only in single-port mode [ghost], dispatch indexes the table with the "
                "datagram's source behind contains_key and forwards that datagram, the channel-backed socket sends via its clone of the listening socket to "
                "its own remote, the listener's receive buffer never shrinks (entailed new >= old at every write); multi-port: bind(local ip, 0) and a "
                "successful connect(requester) on every Ok return; every stray non-request packet ends its listen iteration with ERROR 4 [ghost reply at the "
                "back edge]. Per-client byte streams under concrete interleavings are not decided.",
        "design_ref": "DESIGN.md section 4 C12",
        "note": TB + " Kernel semantics of connect()/try_clone are trusted.",
        "technique": "ownership / provenance queries over the interpreter's value terms + ghost-variable checks at the listen loop's back edge",
    },
    "C13": {
        "category": "other",
        "text": "On the closure spawned by Worker::receive: remove_file is reachable only on the Err edge of the transfer result, edge-dominated by "
                "clean_on_error == true, always reached then, and removes exactly the created path; no removal elsewhere; kept partial file is a prefix "
                "(C02.a/b re-checked); failure causes reach the Err edge (C07.a/b re-checked). The ownership clause (cleanup must not harm the completed "
                "upload of a later accepted request) is violated by design of the code base: recorded as known finding D6. Concrete crash points are not decided.",
        "design_ref": "DESIGN.md section 4 C13",
        "note": TB + " Known finding D6 in known_findings.json (keyed by rule and call site).",
        "technique": "edge-dominance / reachability on the inlined supergraph of the receive closure + composition of C02/C07 clauses",
    },
    "C16": {
        "category": "other",
        "text": "The data-phase send helper is a loop over 0..repeat_amount with exactly one send of the same packet per iteration; every DATA/ACK of both "
                "workers is sent inside it and handshake replies are single sends; repeat_amount = Server.duplicate_packets + 1 at both Worker::new sites; "
                "Config::new returns Ok only with duplicate_packets in 0..=254 (abstract interpretation of the parser loop); Server::new copies it; the "
                "tftpd binary builds Config only via Config::new; an iteration of the repeat loop exists in which no send is fatal (a surplus copy that "
                "cannot be delivered does not abort the transfer, defect D8). Completion when both sides duplicate is not decided.",
        "design_ref": "DESIGN.md section 4 C16",
        "note": TB + " A-CONFIG.",
        "technique": "loop-structure and who-may-send queries on the inlined supergraph + abstract interpretation of Config::new",
    },
    "C18": {
        "category": "proof",
        "text": "Every public Window method is interpreted abstractly on its own under the type invariant len(elements) <= size (fields are private): all "
                "obligations discharged, invariant re-established at every exit, exact post-conditions of remove/add/empty on the queue length, fill stops "
                "for good at the first short chunk (ghost eof + re-entry run), observers pure and narrowing lossless, only Window methods touch queue and file. "
                "Equality of handed-out bytes with the file contents is not decided.",
        "design_ref": "DESIGN.md section 4 C18",
        "note": TB + " A-READ; precondition chunk_size <= 2^24 for the public constructor.",
        "technique": "abstract interpretation of each method under a class invariant (linear inequalities over ghost lengths, Houdini loop invariants, ghost typestate)",
    },
    "C15": {
        "category": "other",
        "text": "Block numbers are u16 on the wire and in both state machines; every arithmetic operation on a block number is wrapping_* or a checked "
                "operation with discharged overflow assert; no ordering comparison between two raw block numbers; no saturating/checked u16 method on a block "
                "number; acceptance guard (C08.d) and accept-only-next (C02.a) re-checked. Contents of >65535-block transfers are not decided.",
        "design_ref": "DESIGN.md section 4 C15",
        "note": TB,
        "technique": "provenance (taint) of block-number symbols in the abstract interpreter's value terms + discharged overflow obligations",
    },
    "C03": {
        "category": "proof",
        "text": "For every request filename at once: every filesystem call on the listener and in both workers receives join(<Server dir field>, "
                "convert(filename)) (provenance terms, worker side by substitution of the spawn environment) and no other filesystem API is used; the root "
                "joined, validated and compared is the same field (send_directory for reads, receive_directory for writes); every effect is preceded on "
                "every path by a successful validation [ghost 'validated' discharged by the interpreter through the listen loop]; rejected requests end "
                "their iteration with ERROR 2; the validator returns true only under contains('..') == false and ancestors().any(== root); the converted "
                "name is relative. Symlinks inside the served tree are not decided.",
        "design_ref": "DESIGN.md section 4 C03",
        "note": TB + " A-SYMLINK, A-PATHSEM, A-UTF8.",
        "technique": "provenance terms + ghost-variable gate discharged by abstract interpretation of Server::listen",
    },
    "C06": {
        "category": "proof",
        "text": "For every request, configuration and request history at once: every effect of request handling is preceded on every path by the "
                "knowledge that the policy allows it (WRQ: !read_only && (!exists || overwrite); RRQ: exists) [ghost 'policy']; each refused class ends its "
                "listen-loop iteration having sent exactly ERROR 2 / 6 / 1 from the listening socket to the requester, with no Server field changed; the "
                "codes have the RFC values; the upload sink is a truncating create.",
        "design_ref": "DESIGN.md section 4 C06",
        "note": TB + " Path::exists is taken to reflect the filesystem at request time.",
        "technique": "ghost-variable typestate (request kind, existence, reply code) discharged by abstract interpretation of the listen loop; checks on its back-edge states",
    },
    "C09": {
        "category": "other",
        "text": "Handshake reply is OACK exactly for a non-empty recognised option list (ACK 0 for an option-less write, nothing for an option-less read) "
                "and echoes the handler's list [ghost 'handshake']; only tsize of a read request is rewritten (to metadata.len()); worker settings are the "
                "option values themselves (no arithmetic) and flow unchanged to Worker::new, set_read_timeout, Window size, receive buffer, time-out test; "
                "every option visited by the option loop is in range at the loop's back edge or the function returned Err; worker threads start under "
                "these bounds and none of their panic obligations that depend on negotiated values is open (this found D7); defaults 512/1/5 s. What a peer "
                "observes is not decided.",
        "design_ref": "DESIGN.md section 4 C09",
        "note": TB,
        "technique": "abstract interpretation (per-iteration facts at loop back edges, thread-entry preconditions, obligations) + provenance of Worker::new arguments",
    },
    "C04": {
        "category": "other",
        "text": "Necessary structural conditions of loss tolerance, decided on the MIR of both worker closures for all fault sequences at once: "
                "retransmission of the window behind the time-out test with the timer re-armed only after a burst; a re-acknowledgement on every "
                "non-progress DATA cycle of the receiver; retry budget >= 6 that stale ACKs / duplicate DATA neither consume nor turn into an abort; "
                "an accepted ACK cannot abort. Completion under a given loss pattern (liveness over schedules) is NOT decided.",
        "design_ref": "DESIGN.md section 4 C04",
        "note": TB + " Peer behaviour is not modelled: rules quantify over all results of the socket receive.",
        "technique": "path / dominance / cycle queries on the explored inlined supergraph + discharged obligations of the abstract interpreter",
    },
    "C07": {
        "category": "other",
        "text": "Ranking argument for the retry loops (receive-failed cycles increment a counter tested against a constant bound whose true edge "
                "returns Err with no further socket event; receives are time-bounded), peer-ERROR edges reach return-Err without send/receive, the "
                "OACK reply is accepted only as ACK 0, typestate 'nothing queued after the short chunk' and 'no receive after the final block' proved "
                "by ghost monitors inside the abstract interpreter, Ok return of the sender only behind the queue-empty test. Wall-clock bounds are not decided.",
        "design_ref": "DESIGN.md section 4 C07",
        "note": TB + " A-READ: File::read is short only at end of file.",
        "technique": "cycle / dominance queries on the inlined supergraph + ghost-variable typestate discharged by abstract interpretation (Houdini loop invariants)",
    },
    "C05": {
        "category": "proof",
        "text": "Proof, by abstract interpretation of Server::listen with all crate-local callees inlined and for all datagrams and option values, "
                "that no panic obligation on the listener thread is undischarged, every datagram-sized allocation is bounded, listen() neither "
                "returns nor exits, and the loop-head receive is the only blocking event. Resource exhaustion by volume is not decided.",
        "design_ref": "DESIGN.md section 4 C05",
        "note": TB + " Assumptions A-UTF8, A-STDIO, A-RES, A-CONFIG; Server type invariant proved for Server::new and the listen loop.",
        "technique": "abstract interpretation of MIR (linear inequalities + Fourier-Motzkin, Houdini loop invariants) + dominance lemmas on the inlined supergraph",
    },
    "C10": {
        "category": "proof",
        "text": "Proof that Packet::deserialize is panic-free and in-bounds for every byte string (all MIR asserts and slice/unwrap pre-conditions "
                "discharged over a symbolic slice), and that Ok results imply the header length, a known opcode / error code, NUL terminators and "
                "numeric option values. The re-encode stability clause is not decided.",
        "design_ref": "DESIGN.md section 4 C10",
        "note": TB + " Assumes 0 <= len(buf) <= isize::MAX.",
        "technique": "abstract interpretation of MIR over a symbolic byte slice (linear inequalities, Fourier-Motzkin entailment, Houdini loop invariants)",
    },
}

PENDING = {}
