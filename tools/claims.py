"""What each registered check claims (source of MANIFEST.json)."""
TB = ("Trusted: rustc nightly MIR at mir-opt-level=0 as a faithful rendering of the sources; the curated std models in "
      "analyzer/stdmodel.py; the analyzer itself (tested both ways by selftest/ and seeded/).")

CLAIMS = {
    "C04": {
        "category": "other",
        "text": "Necessary structural conditions of loss tolerance, decided on the MIR of both worker closures for all fault sequences at once: "
                "retransmission of the window behind the time-out test with the timer re-armed only after a burst; a re-acknowledgement on every "
                "non-progress DATA cycle of the receiver; retry budget >= 6 that stale ACKs / duplicate DATA neither consume nor turn into an abort; "
                "an accepted ACK cannot abort. Completion under a given loss pattern (liveness over schedules) is NOT decided.",
        "design_ref": "DESIGN.md section 4 C04",
        "note": TB + " Peer behaviour is not modelled: rules quantify over all results of the socket receive.",
        "technique": "path / dominance / cycle queries on the explored inlined supergraph + discharged obligations of the abstract interpreter",
    },
    "C07": {
        "category": "other",
        "text": "Ranking argument for the retry loops (receive-failed cycles increment a counter tested against a constant bound whose true edge "
                "returns Err with no further socket event; receives are time-bounded), peer-ERROR edges reach return-Err without send/receive, the "
                "OACK reply is accepted only as ACK 0, typestate 'nothing queued after the short chunk' and 'no receive after the final block' proved "
                "by ghost monitors inside the abstract interpreter, Ok return of the sender only behind the queue-empty test. Wall-clock bounds are not decided.",
        "design_ref": "DESIGN.md section 4 C07",
        "note": TB + " A-READ: File::read is short only at end of file.",
        "technique": "cycle / dominance queries on the inlined supergraph + ghost-variable typestate discharged by abstract interpretation (Houdini loop invariants)",
    },
    "C05": {
        "category": "proof",
        "text": "Proof, by abstract interpretation of Server::listen with all crate-local callees inlined and for all datagrams and option values, "
                "that no panic obligation on the listener thread is undischarged, every datagram-sized allocation is bounded, listen() neither "
                "returns nor exits, and the loop-head receive is the only blocking event. Resource exhaustion by volume is not decided.",
        "design_ref": "DESIGN.md section 4 C05",
        "note": TB + " Assumptions A-UTF8, A-STDIO, A-RES, A-CONFIG; Server type invariant proved for Server::new and the listen loop.",
        "technique": "abstract interpretation of MIR (linear inequalities + Fourier-Motzkin, Houdini loop invariants) + dominance lemmas on the inlined supergraph",
    },
    "C10": {
        "category": "proof",
        "text": "Proof that Packet::deserialize is panic-free and in-bounds for every byte string (all MIR asserts and slice/unwrap pre-conditions "
                "discharged over a symbolic slice), and that Ok results imply the header length, a known opcode / error code, NUL terminators and "
                "numeric option values. The re-encode stability clause is not decided.",
        "design_ref": "DESIGN.md section 4 C10",
        "note": TB + " Assumes 0 <= len(buf) <= isize::MAX.",
        "technique": "abstract interpretation of MIR over a symbolic byte slice (linear inequalities, Fourier-Motzkin entailment, Houdini loop invariants)",
    },
}

PENDING = {("C%02d" % i): "check under construction (DESIGN.md section 4), not yet claimed" for i in range(1, 19)}
