#!/usr/bin/env python3
"""Build /verif/seeded/ from the sub-agents' output, my confirmation logs and the evaluation summary.

usage: tools/collect_seeded.py <evaluation summary> <benign_root> <out_round1> <confirm_round1> [<out_round2> <confirm_round2> ...]

  evaluation summary: lines "<name> rc=<n> errs=<n> fired=[C01 C02 ]" written by the runner that applied every patch to a
                      scratch worktree of /repo HEAD and ran `./check all` (names: m1-Cxx-mN, m2-Cxx-mN, b-<dir>-rN, revert_Dn)
"""
import glob
import json
import os
import re
import shutil
import sys

VERIF = os.path.dirname(os.path.dirname(os.path.abspath(__file__)))

FILE_PROPS = {
    "src/worker.rs": ["C01", "C02", "C04", "C07", "C08", "C13", "C14", "C15", "C16"],
    "src/server.rs": ["C03", "C05", "C06", "C09", "C12", "C16"],
    "src/packet.rs": ["C10", "C11", "C09", "C05"],
    "src/convert.rs": ["C10", "C11"],
    "src/window.rs": ["C18", "C01", "C02", "C08"],
    "src/socket.rs": ["C12", "C05", "C02", "C07"],
    "src/config.rs": ["C17", "C16"],
    "src/client_config.rs": ["C17"],
    "src/client.rs": ["C14"],
}


def section(text, pat):
    out = []
    on = False
    for line in text.splitlines():
        if line.startswith("#") or (line.startswith("**") and line.rstrip().endswith("**")):
            if on:
                break
            if re.search(pat, line, re.I):
                on = True
                continue
        elif on:
            out.append(line)
    return "\n".join(out).strip()


def load_summary(paths):
    """several summaries separated by ',': later ones override earlier ones (re-runs with the final code). A patch that does
    not apply to the current HEAD any more ("<name> DOES-NOT-APPLY") keeps the result of the summary named by OLD_SUMMARY
    (evaluated on the base commit OLD_BASE) and is marked as such."""
    res = {}
    noapply = set()
    for path in paths.split(","):
        for line in open(path):
            m = re.match(r"(\S+) rc=(\d+) errs=(\d+) fired=\[(.*)\]", line.strip())
            if m:
                res[m.group(1)] = {"rc": int(m.group(2)), "errs": int(m.group(3)), "fired": m.group(4).split(), "base": None}
                noapply.discard(m.group(1))
            elif line.strip().endswith("DOES-NOT-APPLY"):
                noapply.add(line.split()[0])
    old = os.environ.get("OLD_SUMMARY")
    if old:
        oldres = {}
        for path in old.split(","):
            for line in open(path):
                m = re.match(r"(\S+) rc=(\d+) errs=(\d+) fired=\[(.*)\]", line.strip())
                if m:
                    oldres[m.group(1)] = {"rc": int(m.group(2)), "errs": int(m.group(3)), "fired": m.group(4).split(),
                                          "base": os.environ.get("OLD_BASE", "earlier base")}
        for n in noapply:
            if n in oldres:
                res[n] = oldres[n]
    return res


def write_readme(sd, head, rows, brows, ev):
    lines = ["# Seeded changes and benign refactorings", "",
             "`<Cxx>-r<round>m<n>/`: a change (`patch.diff`) that compiles, passes the existing 42 unit + 11 doc tests and breaks the named property under the",
             "stated conditions, with the demonstration that exposes it, the author's notes (`README.md`) and `meta.json` (what it needs to manifest, what I",
             "ran to confirm it, which checks fire). `benign-*/`: behaviour-preserving refactorings; every check must stay silent on them.",
             "None of this is committed to /repo. The table is the outcome of applying each patch to a scratch worktree of /repo HEAD (%s) and running" % head,
             "`./check all` (`tools/run_corpus.sh`).", "",
             "| id | property | change | own check fires | checks that fire | valid on HEAD |", "|---|---|---|---|---|---|"]
    for m in rows:
        fired = m["checks_that_fire"]
        own = "—" if fired is None else ("yes" if m["property"] in fired else "**no**")
        lines.append("| %s | %s | %s | %s | %s | %s |" % (m["id"], m["property"], m["title"].replace("|", "/")[:100], own,
                                                     "not run" if fired is None else (", ".join(fired) or "**none**"), "yes" if m["valid"] else "no"))
    rev = sorted(k for k in ev if k.startswith("revert_"))
    if rev:
        lines += ["", "Reverse patches of the `fix:` commits (`selftest/mutants/`):", "", "| patch | checks that fire |", "|---|---|"]
        for k in rev:
            lines.append("| %s | %s |" % (k, ", ".join(ev[k]["fired"])))
    lines += ["", "Benign refactorings:", "", "| id | files | checks that fire (should be none) |", "|---|---|---|"]
    for m in brows:
        fired = m["checks_that_fire"]
        note = "" if m.get("evaluated_on") in (None, head) else " (patch predates the last fix: commit and no longer applies; evaluated on %s)" % m["evaluated_on"]
        lines.append("| %s | %s | %s |" % (m["id"], ", ".join(m["files"]), "not run" if fired is None else ((", ".join(fired) or "none") + note)))
    open(os.path.join(sd, "README.md"), "w").write("\n".join(lines) + "\n")


def refresh(summ):
    """tools/collect_seeded.py --refresh <summary>[,<summary>..]: keep the archived corpus, update which checks fire (from a run of
    tools/run_corpus.sh) in every meta.json and rewrite README.md"""
    ev = load_summary(summ)
    head = os.popen("git -C /repo rev-parse --short HEAD").read().strip()
    sd = os.path.join(VERIF, "seeded")
    rows, brows = [], []
    for mp in sorted(glob.glob(os.path.join(sd, "*", "meta.json"))):
        m = json.load(open(mp))
        if m.get("kind") == "benign":
            grp, n = m["id"][len("benign-"):].rsplit("-", 1)
            row = ev.get("b-%s-%s" % (grp, n))
            if row is not None:
                m["checks_that_fire"] = row["fired"]
                m["evaluated_on"] = row.get("base") or head
            brows.append(m)
        else:
            pid, rest = m["id"].split("-r", 1)
            rnd, mn = rest.split("m", 1)
            row = ev.get("m%s-%s-m%s" % (rnd, pid, mn))
            if row is not None:
                m["checks_that_fire"] = row["fired"]
            rows.append(m)
        json.dump(m, open(mp, "w"), indent=1)
    write_readme(sd, head, rows, brows, ev)
    nv = [m for m in rows if m["valid"]]
    print("seeded: %d (valid %d), detected by own check: %d" % (len(rows), len(nv), sum(1 for m in nv if m["checks_that_fire"] and m["property"] in m["checks_that_fire"])))
    print("benign: %d, silent: %d" % (len(brows), sum(1 for m in brows if m["checks_that_fire"] == [])))


def main():
    if sys.argv[1] == "--refresh":
        return refresh(sys.argv[2])
    summ, benign = sys.argv[1:3]
    rest = sys.argv[3:]
    rounds = [(i // 2 + 1, rest[i], rest[i + 1]) for i in range(0, len(rest) - 1, 2)]
    ev = load_summary(summ)
    head = os.popen("git -C /repo rev-parse --short HEAD").read().strip()
    sd = os.path.join(VERIF, "seeded")
    for d in glob.glob(os.path.join(sd, "*")):
        if os.path.isdir(d):
            shutil.rmtree(d)
    os.makedirs(sd, exist_ok=True)
    rows = []
    for rnd, src, confirm in rounds:
        for d in sorted(glob.glob(os.path.join(src, "C*", "m*"))):
            pid = os.path.basename(os.path.dirname(d))
            mn = os.path.basename(d)
            sid = "%s-r%d%s" % (pid, rnd, mn)
            dst = os.path.join(sd, sid)
            os.makedirs(dst, exist_ok=True)
            for f in os.listdir(d):
                if f == "patch.diff" or f.startswith("demo_") or f == "README.md":
                    shutil.copy(os.path.join(d, f), os.path.join(dst, f))
            readme = open(os.path.join(d, "README.md")).read() if os.path.exists(os.path.join(d, "README.md")) else ""
            title = readme.splitlines()[0].lstrip("# ").strip() if readme else sid
            needs = section(readme, r"needed|manifest|trigger|condition|needs")
            res = {}
            log = os.path.join(confirm, "%s-%s.log" % (pid, mn))
            if os.path.exists(log):
                m = re.search(r"RESULT (.*)", open(log).read())
                if m:
                    for kv in m.group(1).split():
                        if "=" in kv:
                            k, v = kv.split("=", 1)
                            res[k] = int(v) if v.isdigit() else v
            row = ev.get("m%d-%s-%s" % (rnd, pid, mn))
            valid = bool(res.get("clean_demo_pass")) and bool(res.get("suite_ok")) and bool(res.get("mutant_demo_fails"))
            meta = {
                "id": sid, "kind": "seeded-violation", "property": pid, "round": rnd, "title": title,
                "origin": "sub-agent given only the text of %s and its own scratch worktree of rs-tftpd; nothing from /verif" % pid,
                "needs_to_manifest": needs[:3000],
                "demonstration": sorted(f for f in os.listdir(dst) if f.startswith("demo_")),
                "confirmed_by_me": {
                    "base_commit": head,
                    "how": "scratch worktree of /repo HEAD: (1) the demo, dropped into tests/, passes on the unchanged tree (cargo test --offline --features "
                           "client --test <demo>); (2) the patch applies, cargo build --offline --features client succeeds and cargo test --workspace "
                           "--no-fail-fast --offline passes (42 unit + 11 doc tests); (3) the demo fails with the patch applied",
                    "clean_demo_passes": bool(res.get("clean_demo_pass")),
                    "builds_and_suite_passes": bool(res.get("suite_ok")),
                    "suite_tests_passed": res.get("suite_passed"),
                    "demo_fails_with_patch": bool(res.get("mutant_demo_fails")),
                },
                "valid": valid,
                "invalid_because": None if valid else ("the demo no longer passes on the unchanged tree: a later fix: commit repaired the defect this change relied on"
                                                       if not res.get("clean_demo_pass") else "not confirmed"),
                "checks_that_fire": row["fired"] if row else None,
            }
            json.dump(meta, open(os.path.join(dst, "meta.json"), "w"), indent=1)
            rows.append(meta)
    brows = []
    for p in sorted(glob.glob(os.path.join(benign, "*", "r*.diff"))):
        grp = os.path.basename(os.path.dirname(p))
        n = os.path.basename(p)[:-5]
        sid = "benign-%s-%s" % (grp, n)
        dst = os.path.join(sd, sid)
        os.makedirs(dst, exist_ok=True)
        shutil.copy(p, os.path.join(dst, "patch.diff"))
        txt = p[:-5] + ".txt"
        desc = open(txt).read().strip() if os.path.exists(txt) else ""
        files = sorted(set(re.findall(r"^\+\+\+ b/(\S+)", open(p).read(), re.M)))
        rel = []
        for f in files:
            for x in FILE_PROPS.get(f, []):
                if x not in rel:
                    rel.append(x)
        row = ev.get("b-%s-%s" % (grp, n))
        meta = {"id": sid, "kind": "benign", "title": desc.splitlines()[0][:200] if desc else sid, "description": desc[:1500], "files": files,
                "relevant_to": rel,
                "origin": "sub-agent asked for behaviour-preserving refactorings (it built the crate and ran the test suite on each)",
                "checks_that_fire": row["fired"] if row else None,
                "evaluated_on": (row.get("base") or head) if row else None}
        json.dump(meta, open(os.path.join(dst, "meta.json"), "w"), indent=1)
        brows.append(meta)
    lines = ["# Seeded changes and benign refactorings", "",
             "`<Cxx>-r<round>m<n>/`: a change (`patch.diff`) that compiles, passes the existing 42 unit + 11 doc tests and breaks the named property under the",
             "stated conditions, with the demonstration that exposes it, the author's notes (`README.md`) and `meta.json` (what it needs to manifest, what I",
             "ran to confirm it, which checks fire). `benign-*/`: behaviour-preserving refactorings; every check must stay silent on them.",
             "None of this is committed to /repo. The table is the outcome of applying each patch to a scratch worktree of /repo HEAD (%s) and running" % head,
             "`./check all`.", "",
             "| id | property | change | own check fires | checks that fire | valid on HEAD |", "|---|---|---|---|---|---|"]
    for m in rows:
        fired = m["checks_that_fire"]
        own = "—" if fired is None else ("yes" if m["property"] in fired else "**no**")
        lines.append("| %s | %s | %s | %s | %s | %s |" % (m["id"], m["property"], m["title"].replace("|", "/")[:100], own,
                                                     "not run" if fired is None else (", ".join(fired) or "**none**"), "yes" if m["valid"] else "no"))
    rev = sorted(k for k in ev if k.startswith("revert_"))
    if rev:
        lines += ["", "Reverse patches of the `fix:` commits (`selftest/mutants/`):", "", "| patch | checks that fire |", "|---|---|"]
        for k in rev:
            lines.append("| %s | %s |" % (k, ", ".join(ev[k]["fired"])))
    lines += ["", "Benign refactorings:", "", "| id | files | checks that fire (should be none) |", "|---|---|---|"]
    for m in brows:
        fired = m["checks_that_fire"]
        note = "" if m.get("evaluated_on") in (None, head) else " (patch predates the last fix: commit and no longer applies; evaluated on %s)" % m["evaluated_on"]
        lines.append("| %s | %s | %s |" % (m["id"], ", ".join(m["files"]), "not run" if fired is None else ((", ".join(fired) or "none") + note)))
    open(os.path.join(sd, "README.md"), "w").write("\n".join(lines) + "\n")
    nv = [m for m in rows if m["valid"]]
    print("seeded: %d (valid %d), detected by some check: %d, by own check: %d" % (
        len(rows), len(nv), sum(1 for m in nv if m["checks_that_fire"]), sum(1 for m in nv if m["checks_that_fire"] and m["property"] in m["checks_that_fire"])))
    print("benign: %d, silent: %d" % (len(brows), sum(1 for m in brows if m["checks_that_fire"] == [])))


if __name__ == "__main__":
    main()
