#!/usr/bin/env python3
"""Build /verif/seeded/<Cxx>-m<N>/ from the mutant agents' output, my confirmation logs and the detection matrix.
usage: tools/collect_seeded.py <agents_out_dir> <confirm_dir> <matrix.json>"""
import glob
import json
import os
import re
import shutil
import sys

VERIF = os.path.dirname(os.path.dirname(os.path.abspath(__file__)))


def section(text, pat):
    out = []
    on = False
    for line in text.splitlines():
        if line.startswith("#"):
            if on:
                break
            if re.search(pat, line, re.I):
                on = True
                continue
        elif on:
            out.append(line)
    return "\n".join(out).strip()


def main():
    src, confirm, matrix = sys.argv[1:4]
    mx = json.load(open(matrix))
    repo_head = os.popen("git -C /repo rev-parse --short HEAD").read().strip()
    index = []
    for d in sorted(glob.glob(os.path.join(src, "C*", "m*"))):
        pid = os.path.basename(os.path.dirname(d))
        mn = os.path.basename(d)
        sid = "%s-%s" % (pid, mn)
        dst = os.path.join(VERIF, "seeded", sid)
        os.makedirs(dst, exist_ok=True)
        for f in os.listdir(d):
            if f == "patch.diff" or f.startswith("demo_") or f == "README.md":
                shutil.copy(os.path.join(d, f), os.path.join(dst, f))
        readme = open(os.path.join(d, "README.md")).read() if os.path.exists(os.path.join(d, "README.md")) else ""
        title = readme.splitlines()[0].lstrip("# ").strip() if readme else sid
        needs = section(readme, r"needed|manifest|trigger|condition")
        log = os.path.join(confirm, "%s-%s.log" % (pid, mn))
        res = {}
        if os.path.exists(log):
            m = re.search(r"RESULT (.*)", open(log).read())
            if m:
                for kv in m.group(1).split():
                    if "=" in kv:
                        k, v = kv.split("=", 1)
                        res[k] = int(v) if v.isdigit() else v
        mrow = None
        for k, v in mx.items():
            if k.endswith("/%s/%s/patch.diff" % (pid, mn)):
                mrow = v
        meta = {
            "id": sid,
            "property": pid,
            "title": title,
            "origin": "sub-agent given only the text of %s and a scratch worktree of rs-tftpd; nothing from /verif" % pid,
            "needs_to_manifest": needs,
            "demonstration": sorted(f for f in os.listdir(dst) if f.startswith("demo_")),
            "confirmed_by_me": {
                "base_commit": repo_head,
                "how": "scratch worktree of /repo HEAD: (1) demo as tests/<demo>.rs passes on the unchanged tree "
                       "(cargo test --offline --features client --test <demo>); (2) patch applies, cargo build --offline "
                       "--features client succeeds, cargo test --workspace --no-fail-fast --offline passes (42 unit + 11 doc); "
                       "(3) the demo fails with the patch applied",
                "clean_demo_passes": bool(res.get("clean_demo_pass")),
                "builds_and_suite_passes": bool(res.get("suite_ok")),
                "suite_tests_passed": res.get("suite_passed"),
                "demo_fails_with_patch": bool(res.get("mutant_demo_fails")),
            },
            "valid": bool(res.get("clean_demo_pass")) and bool(res.get("suite_ok")) and bool(res.get("mutant_demo_fails")),
            "checks_that_fire": (mrow or {}).get("fired"),
            "violations_reported": (mrow or {}).get("violations"),
        }
        json.dump(meta, open(os.path.join(dst, "meta.json"), "w"), indent=1)
        index.append(meta)
    # index table
    lines = ["# Seeded changes", "",
             "Each directory holds a change (`patch.diff`) that compiles, passes the existing 42 unit + 11 doc tests and breaks the",
             "named property under the stated conditions, the demonstration that exposes it, the author's notes and `meta.json`.",
             "None is committed to /repo. `matrix.json` is the raw output of `tools/matrix.py` (every check run on every change).",
             "", "| id | property | change | own check fires | all checks that fire | valid on HEAD |", "|---|---|---|---|---|---|"]
    for m in index:
        fired = m["checks_that_fire"]
        own = "—" if fired is None else ("yes" if m["property"] in fired else "**no**")
        lines.append("| %s | %s | %s | %s | %s | %s |" % (m["id"], m["property"], m["title"].replace("|", "/")[:110], own,
                                                     "n/a" if fired is None else (", ".join(fired) or "none"), "yes" if m["valid"] else "no (see meta.json)"))
    rev = sorted(k for k in mx if "revert_" in k)
    if rev:
        lines += ["", "Reverse patches of the `fix:` commits (`selftest/mutants/`):", "", "| patch | checks that fire |", "|---|---|"]
        for k in rev:
            lines.append("| %s | %s |" % (os.path.basename(k), ", ".join(mx[k].get("fired", []))))
    open(os.path.join(VERIF, "seeded", "README.md"), "w").write("\n".join(lines) + "\n")
    print("\n".join(lines))


if __name__ == "__main__":
    main()
