#!/bin/bash
# Re-evaluate the corpus in /verif/seeded against the current /repo HEAD with the current /verif machinery.
#
# usage: tools/run_corpus.sh <scratch dir outside /repo and /verif> [jobs (default 12)] [name filter (grep -E)]
#
# For every seeded/<id>/patch.diff (and every selftest/mutants/revert_D*.diff): apply it to a scratch worktree of /repo HEAD,
# run `./check all` from a private copy of /verif (so that evidence files of parallel runs do not collide), and append
#   <name> rc=<exit code> errs=<checker errors> fired=[<properties with a VIOLATION line>]        or   <name> DOES-NOT-APPLY
# to <scratch>/out/summary.  Names follow tools/collect_seeded.py: m<round>-<Cxx>-m<n>, b-<group>-r<n>, revert_D<n>.
# Worktrees and copies are removed at the end; <scratch>/out (logs + summary) is kept for collect_seeded.py.
set -u
S=${1:?scratch dir}; J=${2:-12}; F=${3:-.}
V=$(cd "$(dirname "$0")/.." && pwd)
case "$S" in /repo*|/verif*) echo "scratch dir must be outside /repo and /verif" >&2; exit 2;; esac
mkdir -p "$S/out" "$S/lists"; rm -f "$S"/lists/*
n=0
for d in "$V"/seeded/*/; do
  id=$(basename "$d"); p="$d/patch.diff"; [ -f "$p" ] || continue
  case "$id" in
    benign-*) name="b-${id#benign-}";;
    C*-r*m*)  pid=${id%%-*}; rest=${id#*-r}; name="m${rest%%m*}-$pid-m${rest#*m}";;
    *) continue;;
  esac
  echo "$name" | grep -Eq "$F" || continue
  echo "$name $p" >> "$S/lists/l$((n % J))"; n=$((n + 1))
done
for p in "$V"/selftest/mutants/revert_D*.diff; do
  name=$(basename "$p" .diff); echo "$name" | grep -Eq "$F" || continue
  echo "$name $p" >> "$S/lists/l$((n % J))"; n=$((n + 1))
done
echo "$n patches, $J jobs"
worker() {
  i=$1; wt="$S/wt$i"; cp="$S/verif$i"
  git -C /repo worktree add -q --detach "$wt" HEAD || return
  rsync -a --exclude .git --exclude .cache "$V"/ "$cp"/
  while read -r name p; do
    [ -f "$S/out/$name.out" ] && continue
    git -C "$wt" checkout -q -- .
    if ! git -C "$wt" apply "$p" 2>/dev/null; then echo "$name DOES-NOT-APPLY" >> "$S/out/summary"; touch "$S/out/$name.out"; continue; fi
    (cd "$cp" && VERIF_REPO="$wt" ./check all > "$S/out/$name.out" 2>&1); rc=$?
    fired=$(grep -o "VIOLATION property=C[0-9]*" "$S/out/$name.out" | sed 's/VIOLATION property=//' | sort -u | tr '\n' ' ')
    errs=$(grep -c "CHECKER-ERROR" "$S/out/$name.out")
    echo "$name rc=$rc errs=$errs fired=[$fired]" >> "$S/out/summary"
  done < "$S/lists/l$i"
  git -C /repo worktree remove --force "$wt"; rm -rf "$cp"
}
for i in $(seq 0 $((J - 1))); do [ -f "$S/lists/l$i" ] && worker "$i" & done
wait
git -C /repo worktree prune
echo "summary: $S/out/summary ($(wc -l < "$S/out/summary") lines)"
