#!/usr/bin/env python3
"""Regenerates /verif/MANIFEST.json from the table below (keeps it valid at all times)."""
import json
import os
import sys

VERIF = os.path.dirname(os.path.dirname(os.path.abspath(__file__)))
sys.path.insert(0, VERIF)
from tools.claims import CLAIMS, PENDING  # noqa: E402

checks = []
for pid in sorted(CLAIMS):
    c = CLAIMS[pid]
    checks.append({
        "property_id": pid,
        "quick_cmd": "./check %s" % pid,
        "thorough_cmd": "VERIF_TIER=thorough ./check %s" % pid,
        "evidence_file": "/verif/evidence/%s.json" % pid,
        "replay_cmd_template": "./check %s --replay {path}" % pid,
        "engine": "tftp-facts+analyzer",
        "level_claimed": {"category": c["category"], "text": c["text"], "design_ref": c["design_ref"]},
        "level_note": c["note"],
        "technique": c["technique"],
    })
na = [{"property_id": pid, "reason": PENDING[pid]} for pid in sorted(PENDING) if pid not in CLAIMS]
m = {
    "version": 1,
    "setup_cmd": "./check --setup",
    "hooks": {
        "guard": "tftpd_verif (unused: no instrumentation is compiled into /repo; checks read the MIR of the unmodified sources)",
        "enable": "none needed: ./check runs `cargo +nightly check --features client --lib --bins` on /repo's working tree with the fact-extracting rustc wrapper (driver/)",
        "baseline_off_cmd": "cd /repo && cargo test --workspace --no-fail-fast --offline",
        "source_commits": [],
        "add_only": True,
    },
    "engines": [
        {"name": "tftp-facts", "path": "driver/", "serves_properties": sorted(CLAIMS),
         "kind_free_text": "rustc_private driver (RUSTC_WORKSPACE_WRAPPER) serialising MIR, types, ADTs, impls and constants of lib + bins as JSON facts; contains no rule"},
        {"name": "analyzer", "path": "analyzer/", "serves_properties": sorted(CLAIMS),
         "kind_free_text": "static analyses over the facts: inlined supergraph, dominance/path queries, provenance terms, effect logs, and a numeric abstract interpreter (linear inequalities, Fourier-Motzkin entailment, Houdini loop invariants, curated std models); rules/ hold the per-property clauses"},
    ],
    "checks": checks,
    "notes": "Static analysis only: every verdict is computed from the MIR of /repo's current working tree; nothing of rs-tftpd is executed. Known findings: known_findings.json. Fix commits in /repo: see DESIGN.md section 3.",
    "not_applicable": na,
}
with open(os.path.join(VERIF, "MANIFEST.json"), "w") as f:
    json.dump(m, f, indent=1)
print("MANIFEST.json written: %d checks, %d not_applicable" % (len(checks), len(na)))
