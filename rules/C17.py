"""C17 - Command-line configuration is order-independent with documented defaults."""
from analyzer import lin
from .common import *

CONFIG = "tftpd::config::Config"
CCONFIG = "tftpd::client_config::ClientConfig"

SERVER_FLAGS = {"-i": "ip_address", "--ip-address": "ip_address", "-p": "port", "--port": "port", "-d": "directory", "--directory": "directory",
                "-rd": "receive_directory", "--receive-directory": "receive_directory", "-sd": "send_directory", "--send-directory": "send_directory",
                "-s": "single_port", "--single-port": "single_port", "-r": "read_only", "--read-only": "read_only",
                "--duplicate-packets": "duplicate_packets", "--overwrite": "overwrite", "--keep-on-error": "clean_on_error", "-h": None, "--help": None}
CLIENT_FLAGS = {"-i": "remote_ip_address", "--ip-address": "remote_ip_address", "-p": "port", "--port": "port", "-b": "blocksize", "--blocksize": "blocksize",
                "-w": "windowsize", "--windowsize": "windowsize", "-t": "timeout", "--timeout": "timeout", "-rd": "receive_directory",
                "--receive-directory": "receive_directory", "-u": "mode", "--upload": "mode", "-d": "mode", "--download": "mode",
                "--keep-on-error": "clean_on_error", "-h": None, "--help": None}


def analyse_parser(world, rep, adt, flags_doc, tag, wildcard_is_error):
    prog = world.lib
    path = adt + "::new"
    a = rep.clause("C17.a/%s" % tag, "%s: one flag, one setting; no arm reads the configuration => order independence (last occurrence wins)" % tag)
    b = rep.clause("C17.b/%s" % tag, "%s: missing value / unparsable value / missing directory / unknown flag => Err" % tag)
    if path not in prog.bodies:
        a.fail("anchor-lost %s" % short(path), "public anchor %s not found" % path)
        return None
    eng = world.run("fn:" + path)
    g = graph_of(eng)
    fid = eng.entry_frame
    # the argument loop: the innermost loop around the flag comparisons (in Config::new itself or in a helper it calls)
    from .workers import Region
    R = Region(world, eng, "fn:" + path)
    heads = []
    for edge, conds in eng.edge_conds.items():
        if any(c[0] == "bool" and c[1][0] == "opaque" and isinstance(c[1][1], tuple) and c[1][1][0] == "streq" for c in conds):
            lc = R.loops_containing(edge[0])
            if lc and lc[0] not in heads:
                heads.append(lc[0])
    if not a.need(len(heads), 1, "argument loop"):
        return eng
    head = heads[0]
    eng.arg_loop = head
    eng.arg_loop_nodes = R.loop_nodes(*head)
    body = eng.frame_bodies[fid]
    fields = [f["name"] for f in prog.adts[adt]["variants"][0]["fields"]]
    # configuration local: the struct-typed local of the entry frame of type adt
    cfg_roots = set()
    for (node, root, p, v) in eng.writes_log:
        if root[0] == "L" and root[1] == fid and isinstance(root[2], int) and prog.types[body.local_ty(root[2])].get("path") == adt:
            cfg_roots.add(root)
    a.need(len(cfg_roots), 1, "configuration value under construction")
    # flag table from the string comparisons
    true_edges = {}
    false_edges = set()
    for edge, conds in eng.edge_conds.items():
        for c in conds:
            if c[0] == "bool" and c[1][0] == "opaque" and isinstance(c[1][1], tuple) and c[1][1][0] == "streq":
                s_ = c[1][1][4] if c[1][1][4] is not None else c[1][1][3]
                if s_ is None:
                    continue
                if c[2]:
                    true_edges.setdefault(edge[1], set()).add(s_)
                else:
                    false_edges.add((edge, s_))
    table = {}
    for tgt, names in true_edges.items():
        for n in names:
            table[n] = tgt
    a.need(len(table), len(flags_doc) - 2, "flag spellings compared by the parser")
    missing = sorted(set(flags_doc) - set(table))
    extra = sorted(set(table) - set(flags_doc))
    a.ob(not missing, "flag-missing", "documented flags not recognised by the parser: %s" % missing, nontrivial=False, sample={"flags": sorted(table)})
    # arms
    arms = {}
    for n, tgt in table.items():
        arms.setdefault(tgt, set()).add(n)
    written_by_arm = {}
    cfg_syms = set(sid for nm, sid in eng.sym_ids.items() if isinstance(nm, tuple) and nm and nm[0] == "phi" and len(nm) == 5 and nm[3] in cfg_roots)
    for tgt, names in sorted(arms.items(), key=lambda kv: sorted(kv[1])):
        nodes = g.reachable([tgt], stop_at=[head], avoid_nodes=[head]) | set([tgt])
        nodes = set(n for n in nodes if n != head)
        ws = {}
        reads_cfg = False
        for (node, root, p, v) in eng.writes_log:
            if node in nodes and root in cfg_roots and p and isinstance(p[0], int):
                ws.setdefault(fields[p[0]], []).append(v)
                # value may only depend on constants and this arm's own argument
                syms = set()
                if isinstance(v, tuple) and v and v[0] == "i":
                    syms = set(s for s, _ in v[1][1])
                if syms & cfg_syms or term_contains(v, lambda t: isinstance(t, tuple) and t and t[0] == "phi" and len(t) == 5 and t[3] in cfg_roots):
                    reads_cfg = True
        for edge, conds in eng.edge_conds.items():
            if edge[0] in nodes:
                for c in conds:
                    txt_syms = set()
                    if c[0] in ("eq", "neq"):
                        txt_syms = set(s for s, _ in c[1][1])
                    elif c[0] == "bool" and c[1][0] == "cmp":
                        txt_syms = set(s for s, _ in c[1][2][1]) | set(s for s, _ in c[1][3][1])
                    if txt_syms & cfg_syms:
                        reads_cfg = True
        doc = set(flags_doc.get(n) for n in names)
        label = "/".join(sorted(names))
        written_by_arm[label] = sorted(ws)
        exits = [e for e in eng.events if e.node in nodes and base_name(e) == "std::process::exit"]
        if doc == {None}:
            a.ob(not ws and bool(exits), "help-arm %s" % label, "the help arm writes configuration or does not exit", sample={"arm": label, "writes": sorted(ws), "exits": bool(exits)})
            continue
        a.ob(len(doc) == 1, "spellings-share-arm %s" % label, "spellings of different settings share one arm: %s" % sorted(names), nontrivial=False)
        want = list(doc)[0]
        a.ob(sorted(ws) == [want], "arm-writes %s" % label,
             "the arm of %s writes %s instead of exactly [%s]: the result depends on the position of this flag relative to others (or the flag has no effect)"
             % (label, sorted(ws), want), sample={"arm": label, "writes": sorted(ws)})
        a.ob(not reads_cfg, "arm-reads-config %s" % label, "the arm of %s reads the configuration built so far: its effect depends on earlier flags" % label,
             sample={"arm": label, "reads configuration": reads_cfg})
    # different arms write different fields (declared exception: client -u / -d are the two values of `mode`)
    owner = {}
    for label, ws in written_by_arm.items():
        for f in ws:
            owner.setdefault(f, []).append(label)
    for f, ls in owner.items():
        ok = len(ls) == 1 or (tag == "client" and f == "mode" and len(ls) == 2)
        a.ob(ok, "field-written-by-several-arms %s" % f, "setting %s is written by the arms %s" % (f, ls), nontrivial=False)
    # ---------------------------------------------------------------- b errors
    oks = [s for s in eng.finals if ret_discr(eng, s) == 0]
    errs = [s for s in eng.finals if ret_discr(eng, s) == 1]
    b.need(len(oks), 1, "Ok return states")
    b.need(len(errs), 3, "Err return states")
    survivors = [("return Ok", s) for s in oks] + [("loop back edge", s) for s in eng.loop_backs.get(head, [])]
    arm_nodes_all = set()
    for tgt in arms:
        arm_nodes_all |= (g.reachable([tgt], stop_at=[head], avoid_nodes=[head]) | set([tgt]))
    n_next = n_parse = n_exists = 0
    seen_nodes = set()
    for e in eng.events:
        if e.node not in arm_nodes_all or e.inlined or e.node in seen_nodes:
            continue
        n = base_name(e)
        cond = None
        if n.endswith("std::iter::Iterator>::next") or n == "std::iter::Iterator::next":
            r = e.ret
            sid = eng.sym_ids.get(("discr", r[1], ())) if isinstance(r, tuple) and r and r[0] == "t" else None
            cond = (sid, 0, "flag without its value") if sid is not None else None
            n_next += 1
        elif n == "core::str::<impl str>::parse":
            fc = failure_condition(eng, e)
            cond = (fc[0], fc[1], "unparsable value") if fc else None
            n_parse += 1
        elif n == "std::path::Path::exists":
            r = e.ret
            sid = single(r)
            cond = (sid, 0, "non-existent directory") if sid is not None else None
            n_exists += 1
        else:
            continue
        seen_nodes.add(e.node)
        if cond is None:
            b.ob(False, "no-outcome-symbol %s" % n, "cannot identify the failure outcome of %s" % n, e.loc)
            continue
        bad = [w for w, s in survivors if state_has(s, cond[0], cond[1])]
        b.ob(not bad, "%s-accepted at %s" % (cond[2].replace(" ", "-"), e.loc.split(":")[-1] if False else short(e.body)),
             "%s does not make the parser fail (continues to %s)" % (cond[2], sorted(set(bad))), e.loc,
             sample={"failure": cond[2], "at": e.loc, "leads to Err": not bad})
    b.need(n_next, 3, "value-taking arms (args.next())")
    b.need(n_parse, 1, "parsed values")
    if wildcard_is_error:
        # the all-comparisons-false chain must not return to the loop head
        all_true = set()
        for edge, conds in eng.edge_conds.items():
            for c_ in conds:
                if c_[0] == "bool" and c_[1][0] == "opaque" and isinstance(c_[1][1], tuple) and c_[1][1][0] == "streq" and c_[2]:
                    all_true.add(edge)
        r = g.reachable(list(g.succ.get(head, ())), avoid_edges=all_true, stop_at=[head])
        b.ob(head not in r and bool(false_edges), "unknown-flag-accepted", "an argument that matches no flag does not make the parser fail: the loop continues",
             sample={"unknown flag": "Err"})
    return eng


def single(v):
    if isinstance(v, tuple) and v and v[0] == "i" and v[1][0] == 0 and len(v[1][1]) == 1 and v[1][1][0][1] == 1:
        return v[1][1][0][0]
    return None


def check(world, tier):
    prog = world.lib
    rep = Report("C17")
    rep.level = "proof"
    rep.trusted_base = ["rustc nightly MIR", "effect sets per match arm from the abstract interpreter's write log", "error-propagation check on return / back-edge states"]
    rep.assumptions = ["Path::exists / str::parse semantics"]
    rep.explanation = ("For every argument vector at once: the flag table is read off the MIR string comparisons; each arm writes exactly its one documented "
                       "setting, spellings of a flag share an arm, different settings have different arms, and no arm reads the configuration built so far - "
                       "so arms commute and re-assignment is last-wins: the result is independent of flag order. A flag without value, an unparsable value, a "
                       "missing directory and (server) an unknown flag cannot reach an Ok return or the loop's back edge. Defaults are the documented ones; "
                       "receive/send directories fall back to -d exactly when still empty after the loop.")
    es = analyse_parser(world, rep, CONFIG, SERVER_FLAGS, "server", True)
    ec = analyse_parser(world, rep, CCONFIG, CLIENT_FLAGS, "client", False) if CCONFIG in prog.adts else None
    # ---------------------------------------------------------------- defaults
    c = rep.clause("C17.c", "documented defaults")
    dd = "tftpd::<config::Config as std::default::Default>::default"
    if dd in prog.bodies:
        e = world.run("fn:" + dd)
        c.need(len(e.finals), 1, "return state of Config::default")
        fields = [f["name"] for f in prog.adts[CONFIG]["variants"][0]["fields"]]
        want = {"port": 69, "single_port": 0, "read_only": 0, "duplicate_packets": 0, "overwrite": 0, "clean_on_error": 1}
        for s in e.finals:
            for f, w in want.items():
                v = e.read(s, ("L", e.entry_frame, 0), (fields.index(f),))
                c.ob(v[0] == "i" and v[1] == (w, ()), "default-%s" % f, "default of %s is not %s" % (f, w), sample={f: w})
            ip = e.subtree(s, ("L", e.entry_frame, 0), (fields.index("ip_address"),))
            okip = "LOCALHOST" in repr(ip) or "127" in repr(ip) or any("\\x7f\\x00\\x00\\x01" in r_ or "127, 0, 0, 1" in r_ for v_ in ip.values() for r_ in const_reprs(prog, v_))
            c.ob(okip, "default-ip", "default ip address is not 127.0.0.1", sample={"ip_address": "Ipv4Addr::LOCALHOST"})
            dv = e.subtree(s, ("L", e.entry_frame, 0), (fields.index("directory"),))
            okdir = "std::env::current_dir" in repr(dv) or "closure_result" in repr(dv)
            if not okdir:
                # a fallback value is fine exactly in the states where current_dir() failed
                for ev in e.events:
                    if base_name(ev) == "std::env::current_dir" and isinstance(ev.ret, tuple) and ev.ret and ev.ret[0] == "t":
                        ds = e.sym_ids.get(("discr", ev.ret[1], ()))
                        if ds is not None and s.ctx.entails_eq(lin.var(ds), lin.const(1)):
                            okdir = True
            c.ob(okdir, "default-directory", "default directory is not the current directory", sample={"directory": "env::current_dir()"})
        c.ob(any("std::env::current_dir" in repr(e.subtree(s, ("L", e.entry_frame, 0), (fields.index("directory"),))) for s in e.finals), "default-directory-current",
             "no return state of Config::default uses the current directory", nontrivial=False)
    else:
        c.fail("anchor-lost Config::default", "impl Default for Config not found")
    cd = "tftpd::<client_config::ClientConfig as std::default::Default>::default"
    if cd in prog.bodies:
        e = world.run("fn:" + cd)
        fields = [f["name"] for f in prog.adts[CCONFIG]["variants"][0]["fields"]]
        want = {"port": 69, "blocksize": 512, "windowsize": 1, "clean_on_error": 1}
        for s in e.finals:
            for f, w in want.items():
                v = e.read(s, ("L", e.entry_frame, 0), (fields.index(f),))
                c.ob(v[0] == "i" and v[1] == (w, ()), "client-default-%s" % f, "client default of %s is not %s" % (f, w), sample={f: w})
            md = e.read(s, ("L", e.entry_frame, 0), (fields.index("mode"), "$discr"))
            mn = variant_name(prog, "tftpd::client::Mode", md[1][0]) if md[0] == "i" and not md[1][1] else None
            c.ob(mn == "Download", "client-default-mode", "client default mode is not Download", sample={"mode": mn})
            to = e.subtree(s, ("L", e.entry_frame, 0), (fields.index("timeout"),))
            tsec = to.get(("$secs",))
            c.ob(tsec is not None and tsec[1] == (5, ()), "client-default-timeout", "client default timeout is not 5 s", sample={"timeout": "5 s"})
    # ---------------------------------------------------------------- fallback
    d = rep.clause("C17.d", "receive/send directories fall back to -d exactly when not given")
    if es is not None:
        g = graph_of(es)
        fid = es.entry_frame
        heads = [es.arg_loop] if getattr(es, "arg_loop", None) is not None else []
        fields = [f["name"] for f in prog.adts[CONFIG]["variants"][0]["fields"]]
        body = es.frame_bodies[fid]
        cf = [e for e in es.events if base_name(e) == "<std::path::PathBuf as std::clone::Clone>::clone_from"]
        d.need(len(set(e.node for e in cf)), 2, "fallback assignments after the loop")
        empt = [e for e in es.events if base_name(e) == "std::ffi::OsStr::is_empty"]
        for e in cf:
            dst, src = e.args[0], e.args[1]
            fdst = fields[dst[2][0]] if isinstance(dst, tuple) and dst[0] == "r" and dst[2] else None
            fsrc = fields[src[2][0]] if isinstance(src, tuple) and src[0] == "r" and src[2] else None
            d.ob(fdst in ("receive_directory", "send_directory") and fsrc == "directory", "fallback-assignment %s" % fdst,
                 "fallback assigns %s := %s" % (fdst, fsrc), e.loc, sample={"fallback": "%s := directory" % fdst})
            if heads:
                d.ob(e.node not in es.arg_loop_nodes, "fallback-inside-loop %s" % fdst, "the fallback is applied inside the argument loop (it would depend on flag order)", e.loc)
            # dominated by is_empty(<same field>) == true
            doms = []
            for t in empt:
                te = bool_call_true_edges(es, t)
                if te is None:
                    continue
                snap = t.args[0]
                if g.dominated_by_edges((fid, 0), e.node, te["true"]):
                    doms.append(t)
            okd = any(term_contains(x.args[0], lambda tt: isinstance(tt, tuple) and len(tt) >= 3 and tt[0] == "r" and tt[2][:1] == (fields.index(fdst),)) or
                      (isinstance(x.args[0], tuple) and x.args[0][0] == "r" and x.args[0][2][:1] == (fields.index(fdst),)) for x in doms) if fdst else False
            d.ob(okd, "fallback-unconditional %s" % fdst, "%s falls back to the directory setting even when it was given explicitly" % fdst, e.loc,
                 sample={"fallback only if": "%s is empty" % fdst})
    # "duplicate-packets >= 255 is an error": the range of the parsed value at every Ok return (shared with C16.c)
    from . import C16
    bb_ = rep.clause("C17.e", "--duplicate-packets accepts exactly 0..=254")
    import_clause(world, tier, bb_, C16, "C16.c", ("config-accepts-255",), "duplicate-packets range")
    return rep
