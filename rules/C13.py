"""C13 - Failed uploads are cleaned up without harming completed ones."""
from analyzer import lin
from .common import *
from .workers import *

REMOVERS = ("std::fs::remove_file", "std::fs::remove_dir_all", "std::fs::remove_dir", "std::fs::rename", "std::fs::File::set_len")


def result_switch(R, call_node):
    """edges of the switch(es) in the caller that test the discriminant of the value returned by the inlined call at
    call_node (wherever in the caller they are): returns {0: [edges], 1: [edges]}"""
    eng = R.eng
    fid = call_node[0]
    dests = set()
    for ev in R.by_node.get(call_node, []):
        if ev.dest is not None:
            dests.add((ev.dest[0], tuple(ev.dest[1])))
    out = {}
    # the returned value may be moved before it is matched: follow plain moves of the destination inside the caller
    moved = set(dests)
    for (node, root, path, v) in eng.writes_log:
        pass
    reach = R.g.reachable([call_node])
    for sw, srcs in eng.switch_src.items():
        if sw[0] != fid or sw not in reach:
            continue
        if not any((s_[0], tuple(s_[1])) in moved for s_ in srcs):
            continue
        for (edge, conds) in eng.edge_conds.items():
            if edge[0] == sw:
                for c in conds:
                    if c[0] == "const":
                        out.setdefault(c[1], []).append(edge)
    if out:
        return out
    # fallback: first switch with constant discriminant after the call (value matched through a temporary)
    body = eng.frame_bodies[fid]
    t = body.blocks[call_node[1]]["term"]
    cur = t.get("t")
    seen = set()
    while cur is not None and cur not in seen:
        seen.add(cur)
        out = {}
        for (edge, conds) in eng.edge_conds.items():
            if edge[0] == (fid, cur):
                for c in conds:
                    if c[0] == "const":
                        out.setdefault(c[1], []).append(edge)
        if out:
            return out
        t2 = body.blocks[cur]["term"]
        if t2["k"] == "goto":
            cur = t2["t"]
        else:
            break
    return {}


def check(world, tier):
    prog = world.lib
    rep = Report("C13")
    rep.level = "other"
    rep.trusted_base = ["rustc nightly MIR", "path queries on the inlined supergraph", "ghost monitors of C02"]
    rep.explanation = ("Decided on the closure spawned by Worker::receive: (a) remove_file is reachable only on the Err edge of the transfer result, is "
                       "edge-dominated by clean_on_error == true, is always reached on that edge, and removes exactly the path that File::create received; "
                       "no file removal anywhere else in the server; (b) a kept partial file is a prefix (C02.a + C02.b re-checked); (c) peer ERROR, retry "
                       "exhaustion and write errors reach the Err return (C07.a/b, C02.b flush contract re-checked); (d) OWNERSHIP: the destructive cleanup is "
                       "not guarded by any supersession test and the upload is written in place - a stale worker of a retransmitted WRQ removes a completed "
                       "upload (genuine defect D6, recorded as known finding). NOT decided: which file exists after a concrete crash point.")
    eng = world.run("listen")
    Rv = region_for(world, eng, "::receive")
    S = region_for(world, eng, "::send")
    a = rep.clause("C13.a", "clean-on-error decision: remove only on Err, only if clean_on_error, always then, exactly the created path")
    b = rep.clause("C13.b", "a kept partial file is a prefix of the bytes sent")
    c = rep.clause("C13.c", "every failure cause reaches the Err edge")
    d = rep.clause("C13.d", "cleanup needs ownership of the target (no harm to a completed upload of a later request)")
    if Rv is None or S is None:
        a.fail("anchor-lost worker-closures", "worker closures not found")
        return rep
    g = Rv.g
    tf = Rv.transfer_frame()
    root = Rv.root_fid
    removes = [e for e in Rv.events if not e.inlined and base_name(e) in REMOVERS]
    a.need(len(set(e.node for e in removes)), 1, "file removal in the receive closure")
    # the call in the closure frame through which the transfer function is reached
    site = None
    f = tf
    while f is not None and len(f) > len(root):
        s_ = f[-1]
        f = f[:-1]
        if f == root and isinstance(s_, tuple) and s_[0] == "call":
            site = (root, s_[3])
    if site is None:
        a.fail("anchor-lost transfer-call", "cannot find the call of the transfer function in the receive closure")
        return rep
    # the outcome of the transfer: the points inside the function called at `site` where its Result is set to Ok / Err. The
    # path queries below run on the state-sensitive graph, so "after an Ok outcome" follows the Ok states wherever the result is
    # matched (in the closure itself, or in a helper it is handed to)
    cfs = [f for f in eng.frame_bodies if len(f) == len(root) + 1 and f[:len(root)] == root and isinstance(f[-1], tuple) and f[-1][0] == "call" and f[-1][3] == site[1]]
    ok_nodes, err_nodes = set(), set()
    for cf_ in cfs:
        ok_nodes |= set(Rv.ret_nodes(cf_, 0))
        err_nodes |= set(Rv.ret_nodes(cf_, 1))
    # when the call's result is matched in the closure itself, the arms of that match are the outcome (this also covers results
    # assembled by combinators, e.g. File::create(..).map_err(..).and_then(|f| transfer(f)), whose Err may predate the transfer)
    sw = result_switch(Rv, site)
    if sw.get(0) and sw.get(1) and all(e_[0][0] == root for e_ in sw[0] + sw[1]):
        ok_nodes = set(e_[1] for e_ in sw[0])
        err_nodes = set(e_[1] for e_ in sw[1])
    a.need(len(ok_nodes), 1, "Ok outcome of the transfer")
    a.need(len(err_nodes), 1, "Err outcome of the transfer")
    creates = [e for e in Rv.events if not e.inlined and base_name(e) in ("std::fs::File::create", "std::fs::OpenOptions::open")]
    # clean_on_error symbol(s): captured copy (own upvar) or the worker's field
    clean_syms = set()
    u = worker_upvar(Rv)
    for nm, sid in eng.sym_ids.items():
        if isinstance(nm, tuple) and nm and nm[0] == "env" and nm[1] == Rv.name[len("thread:"):]:
            sti = eng.static_type(("L", root, 1), tuple(nm[2]))
            if sti is not None and prog.types[sti]["k"] == "bool":
                clean_syms.add(sid)
    true_edges = set()
    for s_ in clean_syms:
        for edge, cnd in Rv.edges_on_symbol(s_):
            if cnd[0] == "eq" and cnd[2] != 0:
                true_edges.add(edge)
            elif cnd[0] == "neq" and 0 in cnd[2]:
                true_edges.add(edge)
            elif cnd[0] == "bool" and cnd[1][0] == "cmp":
                op, aa, bb, truth = cnd[1][1], cnd[1][2], cnd[1][3], cnd[2]
                zero = (not aa[1] and aa[0] == 0) or (not bb[1] and bb[0] == 0)
                if zero and ((op == "Ne" and truth) or (op == "Eq" and not truth)):
                    true_edges.add(edge)
    a.need(len(true_edges), 1, "test of clean_on_error")
    end = (root, "ret")
    for e in removes:
        n = base_name(e)
        a.ob(n == "std::fs::remove_file", "cleanup-uses-%s" % n.split("::")[-1], "the receive closure calls %s" % n, e.loc)
        from_ok = e.node in g.reachable(sorted(ok_nodes, key=repr), avoid_nodes=err_nodes)
        a.ob(not from_ok, "remove-on-success", "the uploaded file can be removed although the transfer succeeded", e.loc,
             sample={"remove_file": e.loc, "reachable after an Ok outcome": from_ok})
        a.ob(bool(err_nodes) and e.node not in g.reachable([(root, 0)], avoid_nodes=err_nodes), "remove-not-behind-err",
             "remove_file is reachable without the transfer having failed", e.loc)
        a.ob(bool(true_edges) and g.dominated_by_edges((root, 0), e.node, true_edges), "remove-ignores-keep-on-error",
             "remove_file is reachable with clean_on_error == false (--keep-on-error would not keep the partial file)", e.loc,
             sample={"dominated by": "clean_on_error == true"})
        # same path as the create
        for cr in creates:
            pi = 0 if base_name(cr) == "std::fs::File::create" else 1
            same = (len(cr.args) > pi and e.args and cr.args[pi] == e.args[0]) or same_captured_value(Rv, env_key(Rv, cr, pi), env_key(Rv, e, 0))
            a.ob(same, "remove-other-path", "the path removed on error is not the path that was created", e.loc,
                 sample={"remove path == create path": same})
    # always reached on Err && clean
    rn = set(e.node for e in removes)
    for te in true_edges:
        if te[0] not in g.reachable(sorted(err_nodes, key=repr)):
            continue
        missed = end in g.reachable([te[1]], avoid_nodes=rn)
        a.ob(not missed, "cleanup-skipped", "with clean_on_error set, a failed upload can end without removing the partial file",
             sample={"from clean_on_error==true edge": "every path to the end of the closure passes remove_file"})
    # no removal elsewhere
    for e in eng.events:
        if not e.inlined and base_name(e) in REMOVERS and e.region != Rv.name and (e.region == "listener" or e.region.startswith("thread:")):
            a.ob(False, "removal-elsewhere %s in %s" % (base_name(e), short(e.body)), "%s is called in %s (%s)" % (base_name(e), short(e.body), e.region), e.loc)
    # ---------------------------------------------------------------- b, c by composition
    from . import C02, C07
    r2 = run_rule(C02, world, tier)
    for cl in r2.clauses:
        if cl.id in ("C02.a", "C02.b"):
            for f_ in cl.findings:
                (b if True else c).ob(False, "via " + f_.key, f_.msg, f_.site)
            b.ob(not cl.findings, "prefix via %s" % cl.id, "", sample={cl.id: "%d/%d" % (cl.discharged, cl.obligations)})
    r7 = run_rule(C07, world, tier)
    for cl in r7.clauses:
        if cl.id in ("C07.a", "C07.b"):
            for f_ in cl.findings:
                if "receive" in f_.key or "peer-error" in f_.key:
                    c.ob(False, "via " + f_.key, f_.msg, f_.site)
            c.ob(True, "failure-reaches-Err via %s" % cl.id, "", sample={cl.id: "%d/%d" % (cl.discharged, cl.obligations)})
    # the Err of the transfer function reaches the closure's Err edge: the Err return of TF leads to the err edge only
    errret = set(Rv.ret_nodes(tf, 1))
    c.need(len(errret), 1, "Err returns of the receive transfer function")
    # ---------------------------------------------------------------- d ownership
    renames = [e for e in Rv.events if base_name(e) == "std::fs::rename"]
    # a supersession test: some edge dominating the removal whose condition depends on state shared between
    # listener and workers (Arc / Mutex / atomic / a registry lookup) or on an identity check of the open file
    shared_guard = False
    for e in removes:
        for edge, conds in eng.edge_conds.items():
            if not (isinstance(edge[0][0], tuple) and edge[0][0][:1] == root):
                continue
            if edge in true_edges:
                continue
            if not g.dominated_by_edges((root, 0), e.node, [edge]):
                continue
            for cnd in conds:
                txt = repr(cnd)
                if any(k in txt for k in ("std::sync::Arc", "std::sync::Mutex", "std::sync::atomic", "HashMap", "HashSet", "std::fs::Metadata", "std::os::unix::fs::MetadataExt")):
                    shared_guard = True
    for e in removes:
        ok = shared_guard or bool(renames)
        d.ob(ok, "cleanup-without-ownership %s->%s" % (short(Rv.name[len("thread:"):]), base_name(e)),
             "the failed worker removes its target path unconditionally and uploads are written in place: when a WRQ is accepted twice for one name "
             "(a retransmitted request), the worker that times out later deletes the upload the other one completed", e.loc,
             sample={"remove_file guarded by supersession test": shared_guard, "publish by rename": bool(renames)})
    # the guard that keeps a later accepted upload from sharing its path with an earlier one is the no-overwrite refusal
    from . import C06
    g13 = rep.clause("C13.e", "a second upload of an existing name is refused unless overwrite is enabled (shared with C06)")
    import_clause(world, tier, g13, C06, "C06.policy", ("",), "policy gate")
    import_clause(world, tier, g13, C06, "C06.refusals", ("",), "refusal of existing names")
    return rep
