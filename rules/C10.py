"""C10 - Decoder totality: Packet::deserialize never panics / reads out of bounds; rejects."""
from analyzer import lin
from .common import *

ENTRY = "tftpd::packet::Packet::deserialize"
PACKET = "tftpd::packet::Packet"


def check(world, tier):
    prog = world.lib
    rep = Report("C10")
    rep.level = "proof"
    rep.trusted_base = ["rustc nightly MIR (mir-opt-level=0, debug assertions as assert terminators)",
                        "curated std models (slice indexing pre-conditions, Iterator::position post-condition, to_vec/from_utf8 lengths)",
                        "Fourier-Motzkin entailment in analyzer/lin.py", "Houdini loop-invariant inference in analyzer/engine.py"]
    rep.assumptions = ["0 <= len(buf) <= isize::MAX"]
    rep.explanation = ("Abstract interpretation of Packet::deserialize over ALL byte strings (symbolic slice of arbitrary length): "
                       "every MIR assert (overflow, bounds) and every modelled std pre-condition (slice ranges, unwrap) in the inlined "
                       "decoder is discharged; every std callee is classified panic-free or modelled; no unsafe code. "
                       "Reject clauses are decided on the return states: Ok implies len>=2 (>=4 for DATA/ACK/ERROR), opcode in 1..6, "
                       "error code in 0..7, and no failed NUL search / option-value parse survives to an Ok return or a loop back edge. "
                       "NOT decided: the stability clause decode(encode(decode(b))) == decode(b) (value semantics of string/number conversion).")
    if ENTRY not in prog.bodies:
        c = rep.clause("C10.anchor", "anchor Packet::deserialize")
        c.fail("anchor-lost Packet::deserialize", "public anchor %s not found" % ENTRY)
        return rep
    eng = world.run("fn:" + ENTRY)
    rep.analysed = {"entry": ENTRY, "supergraph_nodes": len(eng.nodes), "call_events": len(eng.events),
                    "return_states": len(eng.finals), "loops": len(eng.loop_invariants)}

    # ---------------- C10.a no panic / no out-of-bounds
    a = rep.clause("C10.a", "no panic and no out-of-bounds read in the decoder, for every byte string")
    obs = obligations(eng)
    a.need(len(obs), 12, "panic obligations in the decoder (asserts, slice ranges)")   # (checked accessors such as get / split_at / first leave fewer of them)
    for o in obs:
        a.ob(o.proven, ob_key(o) + " via " + "/".join(short(frame_fn((f,))) for f in o.ctx[-2:]),
             "cannot discharge %s in %s: %s" % (o.detail, short(o.body), o.residual), o.loc,
             sample={"obligation": o.kind + " " + o.detail, "in": short(o.body), "at": o.loc, "proven": o.proven})
    std_callee_audit(a, eng, world, what="the decoder")
    # no unsafe / unchecked access in the decoder's functions
    bodies = set(e.body for e in eng.events) | set([ENTRY])
    for e in eng.events:
        n = base_name(e)
        if "unchecked" in n or n in prog.unsafe_fns:
            a.ob(False, "unsafe-call %s in %s" % (n, short(e.body)), "unchecked/unsafe callee %s in the decoder" % n, e.loc)
    for w in eng.warnings:
        if w[0] in ("loop-no-convergence", "unknown-terminator", "recursion-cut"):
            a.ob(False, "analysis-incomplete %s %s" % (w[0], short(str(w[1]))), "analysis incomplete: %r" % (w,))

    # ---------------- C10.b rejects
    b = rep.clause("C10.b", "Ok results imply header length, known opcode / error code, NUL terminators, numeric option values")
    oks = [s for s in eng.finals if ret_discr(eng, s) == 0]
    errs = [s for s in eng.finals if ret_discr(eng, s) == 1]
    b.need(len(oks), 6, "Ok return states (one per packet kind)")
    b.need(len(errs), 1, "Err return states")
    # length of the input slice
    buf_len = eng.named(("len", ("P", ("L", eng.entry_frame, 1), ()), ()), None)
    L = lin.var(buf_len)
    kinds_seen = set()
    opcode_evs = events(eng, callee_is("tftpd::packet::Opcode::from_u16"))
    errcode_evs = events(eng, callee_is("tftpd::packet::ErrorCode::from_u16"))
    b.need(len(opcode_evs), 1, "Opcode::from_u16 call in the decoder")
    b.need(len(errcode_evs), 1, "ErrorCode::from_u16 call in the decoder")
    for s in oks:
        dv = ret_discr(eng, s, ((("v", 0)), 0))
        vn = variant_name(prog, PACKET, dv)
        kinds_seen.add(vn)
        need = 4 if vn in ("Data", "Ack", "Error") else 2
        b.ob(s.ctx.entails(lin.le(lin.const(need), L)), "short-datagram-accepted %s" % vn,
             "an Ok(%s) result is reachable with fewer than %d bytes" % (vn, need),
             sample={"Ok variant": vn, "entails": "len(buf) >= %d" % need})
        for ev in opcode_evs:
            v = ev.args[0]
            if v[0] == "i":
                ok = s.ctx.entails(lin.le(lin.const(1), v[1])) and s.ctx.entails(lin.le(v[1], lin.const(6)))
                b.ob(ok, "unknown-opcode-accepted %s" % vn, "Ok(%s) reachable with an opcode outside 1..6" % vn)
        if vn == "Error":
            for ev in errcode_evs:
                v = ev.args[0]
                if v[0] == "i":
                    ok = s.ctx.entails(lin.le(lin.const(0), v[1])) and s.ctx.entails(lin.le(v[1], lin.const(7)))
                    b.ob(ok, "unknown-error-code-accepted", "Ok(Error) reachable with an error code outside 0..7")
    b.ob(kinds_seen >= {"Rrq", "Wrq", "Data", "Ack", "Error", "Oack"}, "packet-kinds-decodable",
         "decoder cannot produce all six packet kinds: %s" % sorted(str(k) for k in kinds_seen), nontrivial=False)
    # failed NUL search (requests / OACK) and failed option-value parse never survive
    fallible = []
    for e in eng.events:
        n = base_name(e)
        if n == "<std::slice::Iter<'a, T> as std::iter::Iterator>::position":
            # the NUL search of strings; the ERROR message is allowed to lack its terminator (existing behaviour,
            # unit test parses_error_without_message)
            if not ctx_has(e, "packet::parse_error") and not e.body.endswith("packet::parse_error"):
                fallible.append((e, "missing-NUL"))
        elif n == "core::str::<impl str>::parse" and not e.inlined:
            # (an inlined parse is the lookup of a crate-local FromStr type - the option NAME, whose failure means "skip")
            fallible.append((e, "non-numeric-option-value"))
    b.need(len([1 for e, k in fallible if k == "missing-NUL"]), 5, "NUL searches in request/OACK decoding")
    b.need(len([1 for e, k in fallible if k == "non-numeric-option-value"]), 2, "option value parses")
    survivors = [("return Ok", s) for s in oks]
    for (fid, h), backs in eng.loop_backs.items():
        for s in backs:
            survivors.append(("loop back edge in %s" % short(frame_fn(fid)), s))
    for e, kind in fallible:
        fc = failure_condition(eng, e)
        if fc is None:
            b.ob(False, "no-outcome-symbol %s" % short(e.body), "cannot identify the failure outcome of %s" % e.callee, e.loc)
            continue
        bad = [where for where, s in survivors if state_has(s, fc[0], fc[1])]
        b.ob(not bad, "%s-survives in %s" % (kind, short(e.body)),
             "a failed %s (%s) in %s does not lead to an Err result: state continues to %s"
             % (base_name(e).split("::")[-1], kind, short(e.body), ", ".join(sorted(set(bad)))), e.loc,
             sample={"fallible call": base_name(e), "in": short(e.body), "kind": kind, "survivors": len(bad)})
    # stability needs the decoder to accept what the serializer emits for the packets the decoder itself returns
    from . import C11
    import_clause(world, tier, b, C11, "C11.c", ("minimal-",), "re-encodings of accepted packets are accepted")
    import_clause(world, tier, b, C11, "C11.c", ("string-chain", "string-start"), "every string ends at a NUL inside the datagram")
    return rep
