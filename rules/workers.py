"""Model of the two worker threads (send / receive) extracted from the explored supergraph.

Everything is located by ROLE (resolved callee, data flow), never by private name:
  * region          = the closure spawned by Worker::send / Worker::receive (public anchors)
  * transfer frame  = the frame that contains the loop with the socket receive
  * RECV / SEND     = dyn calls of the Socket trait (recv_with_size / send)
  * queue events    = VecDeque push_back / drain / clear on the Window's queue; file read / write_all
"""
from analyzer import lin
from .common import *

PACKET = "tftpd::packet::Packet"
WORKER = "tftpd::worker::Worker"
WINDOW = "tftpd::window::Window"

RECV_NAMES = ("tftpd::socket::Socket::recv_with_size", "tftpd::socket::Socket::recv_from_with_size")
SEND_NAMES = ("tftpd::socket::Socket::send", "tftpd::socket::Socket::send_to")


class Region:
    def __init__(self, world, eng, region_name):
        self.world = world
        self.prog = world.lib
        self.eng = eng
        self.name = region_name
        self.g = graph_of(eng)
        self.events = [e for e in eng.events if e.region == region_name]
        self.by_node = {}
        for e in self.events:
            self.by_node.setdefault(e.node, []).append(e)
        self.root_fid = None
        for e in self.events:
            self.root_fid = e.ctx[:1]
            break
        self.entry = (self.root_fid, 0) if self.root_fid else None

    # ---------------- event classes
    def nodes_where(self, pred):
        return sorted(set(e.node for e in self.events if pred(e)), key=repr)

    def recv_nodes(self):
        return self.nodes_where(lambda e: not e.inlined and base_name(e) in RECV_NAMES)

    def send_events(self):
        return [e for e in self.events if not e.inlined and base_name(e) in SEND_NAMES]

    def packet_variants(self, ev):
        """set of Packet variant names the packet argument of a SEND event may hold"""
        snap = arg_pointee(ev, 1)
        dv = discr_of(snap)
        if dv is None:
            return None
        return variant_name(self.prog, PACKET, dv)

    def send_nodes(self, variants=None):
        out = set()
        for e in self.send_events():
            vn = self.packet_variants(e)
            if variants is None or vn in variants or vn is None:
                out.add(e.node)
        return sorted(out, key=repr)

    def send_variants_at(self, node):
        return set(self.packet_variants(e) for e in self.by_node.get(node, []) if not e.inlined and base_name(e) in SEND_NAMES)

    def nodes_calling(self, *names):
        s = set(names)
        return self.nodes_where(lambda e: base_name(e) in s)

    def push_nodes(self):
        return self.nodes_calling("std::collections::VecDeque::push_back", "std::collections::VecDeque::push_front",
                                  "std::collections::VecDeque::insert", "std::collections::VecDeque::extend")

    def drain_nodes(self):
        """nodes where chunks leave the window's queue (the 'progress' points of the sender)"""
        out = set(self.nodes_calling("std::collections::VecDeque::drain", "std::collections::VecDeque::pop_front",
                                     "std::collections::VecDeque::pop_back", "std::collections::VecDeque::truncate",
                                     "std::collections::VecDeque::remove", "std::collections::VecDeque::split_off"))
        # ... and the call sites of Window::remove through which they are reached
        for e in self.events:
            if e.inlined and strip_generics(e.callee) == WINDOW + "::remove":
                out.add(e.node)
        return sorted(out, key=repr)

    def clear_nodes(self):
        return self.nodes_calling("std::collections::VecDeque::clear")

    def write_nodes(self):
        return self.nodes_where(lambda e: not e.inlined and ("std::io::Write::write" in base_name(e) or base_name(e).endswith("::write_all")
                                                             or base_name(e).endswith("::write_vectored") or base_name(e).endswith("::write")))

    def read_nodes(self):
        return self.nodes_where(lambda e: not e.inlined and (base_name(e).startswith("<std::fs::File as std::io::Read>::") or
                                                             base_name(e).startswith("std::io::Read::") or
                                                             "as std::io::Read>::read" in base_name(e) or "as std::io::BufRead>" in base_name(e)))

    # ---------------- frames / loops
    def frame_body(self, fid):
        return self.eng.frame_bodies.get(fid)

    def loops_containing(self, node):
        """[(fid, head, set(nodes of the loop incl. callee frames))] from innermost to outermost"""
        out = []
        fid, bb = node
        cur_fid, cur_bb = fid, bb
        while True:
            body = self.frame_body(cur_fid)
            if body is not None and isinstance(cur_bb, int):
                heads = [h for h, L in body.loops.items() if cur_bb in L]
                heads.sort(key=lambda h: len(body.loops[h]))
                for h in heads:
                    out.append((cur_fid, h))
            if (cur_fid, 0) in getattr(self.eng, "iter_loops", {}):
                # the frame is the callable of a closure-taking iterator adapter: one call per element
                out.append((cur_fid, 0))
            # go to the caller: the call site of this frame
            if len(cur_fid) <= 1:
                break
            site = cur_fid[-1]
            if not (isinstance(site, tuple) and site[0] == "call"):
                break
            cur_bb = site[3]
            cur_fid = cur_fid[:-1]
        return out

    def loop_nodes(self, fid, h):
        """all supergraph nodes belonging to loop (fid,h): its blocks plus every frame called from them"""
        if (fid, h) in getattr(self.eng, "iter_loops", {}):
            return set(n for n in self.g.succ if n[0][:len(fid)] == fid)
        body = self.frame_body(fid)
        L = body.loops[h]
        out = set()
        for n in self.g.succ:
            nf, nb = n
            if nf == fid:
                if nb in L:
                    out.add(n)
            elif len(nf) > len(fid) and nf[:len(fid)] == fid:
                site = nf[len(fid)]
                if isinstance(site, tuple) and site[0] == "call" and site[3] in L:
                    out.add(n)
        return out

    def transfer_loops(self):
        """loops (innermost first) that contain a socket receive"""
        seen = []
        for n in self.recv_nodes():
            for lp in self.loops_containing(n):
                if lp not in seen:
                    seen.append(lp)
        return seen

    def transfer_frame(self):
        lps = self.transfer_loops()
        if not lps:
            return None
        # the frame of the outermost loop containing the receive
        return lps[-1][0]

    def transfer_obligations(self):
        """non-ghost obligations raised in the transfer function or anything inlined into it"""
        tf = self.transfer_frame()
        if tf is None:
            return []
        return [o for o in self.eng.obligations.values() if o.region == self.name and not o.kind.startswith("ghost")
                and o.ctx[:len(tf)] == tf]

    # ---------------- returns of a frame
    def ret_nodes(self, fid, want):
        """nodes of frame fid that set the Result discriminant of the return place to `want` (0 Ok / 1 Err)"""
        out = set()
        for (node, root, path, v) in self.eng.writes_log:
            if node[0] != fid and not (len(node[0]) > len(fid) and node[0][:len(fid)] == fid):
                continue
            if root != ("L", fid, 0):
                continue
            d = None
            if path == () and isinstance(v, tuple) and v and v[0] == "agg":
                dv = v[1].get(("$discr",))
                if dv is not None and dv[0] == "i" and not dv[1][1]:
                    d = dv[1][0]
            elif path == ("$discr",) and v[0] == "i" and not v[1][1]:
                d = v[1][0]
            if d == want:
                out.add(node if node[0] == fid else (fid, node[0][len(fid)][3]))
        return sorted(out, key=repr)

    # ---------------- edges by condition
    def edges_on_symbol(self, sym):
        """[(edge, cond)] for switch edges whose condition tests exactly the integer symbol sym"""
        out = []
        for edge, conds in self.eng.edge_conds.items():
            for c in conds:
                if c[0] in ("eq", "neq"):
                    e = c[1]
                    if len(e[1]) == 1 and e[1][0][0] == sym:
                        out.append((edge, c))
                elif c[0] == "bool":
                    b = c[1]
                    if b[0] == "cmp":
                        ss = set(s for s, _ in b[2][1]) | set(s for s, _ in b[3][1])
                        if sym in ss:
                            out.append((edge, c))
        return out

    def result_discr_sym(self, ev, path=()):
        r = ev.ret
        if isinstance(r, tuple) and r and r[0] == "t":
            return self.eng.sym_ids.get(("discr", r[1], tuple(path)))
        return None

    def proj_sym(self, ev, path):
        r = ev.ret
        if isinstance(r, tuple) and r and r[0] == "t":
            return self.eng.sym_ids.get(("proj", r[1], tuple(path)))
        return None

    def recv_outcome_edges(self):
        """classify the switch edges on the results of the socket receives:
        returns dict kind -> set(edges); kinds: 'err' (receive failed), 'ok', ('pkt', VariantName), 'pkt-other'"""
        out = {}
        prog = self.prog
        padt = prog.adts.get(PACKET)

        def primary(starts, sym, classify):
            """{kind: switch edges on sym that are the first to establish `kind` on a path from `starts`}: the value may be
            inspected in stages (a helper sorts out one variant, the caller matches the rest), while a later switch that
            re-tests what an earlier edge already decided belongs to drop elaboration. Decided on the abstract
            reachability graph: an edge counts only if a state that had not yet passed an edge of its kind takes it."""
            groups = {}
            for (e, c) in self.edges_on_symbol(sym):
                kind = classify(c)
                if kind is not None:
                    groups.setdefault(kind, set()).add(e)
            arg_conds = getattr(self.eng, "arg_conds", {})
            edge_conds = self.eng.edge_conds

            def tests(c):
                return c[0] in ("eq", "neq") and len(c[1][1]) == 1 and c[1][1][0][0] == sym

            keep = {}
            for kind, ge in groups.items():
                def match(x, px, py, kind=kind, ge=ge):
                    if (px, py) not in ge:
                        return False
                    conds = arg_conds.get((x, py)) if x is not None else None
                    if conds is None:
                        conds = edge_conds.get((px, py), ())
                    return any(tests(c) and classify(c) == kind for c in conds)
                keep[kind] = self.g.first_matching_edges(starts, match)
            return keep

        def res_kind(c):
            if c[0] == "eq":
                return "err" if c[2] == 1 else "ok"
            if c[0] == "neq":
                vals = set(c[2])       # otherwise-edge of a 2-valued discriminant
                return "err" if vals == {0} else "ok" if vals == {1} else None
            return None

        allv = [prog.variant_discr(PACKET, i) for i in range(len(padt["variants"]))] if padt is not None else []

        def pkt_kind(c):
            if c[0] == "eq":
                return ("pkt", variant_name(prog, PACKET, c[2]))
            if c[0] == "neq":
                return ("pkt-other", tuple(sorted(variant_name(prog, PACKET, v) for v in allv if v not in c[2])))
            return None

        for n in self.recv_nodes():
            for ev in self.by_node[n]:
                if ev.inlined:
                    continue
                ok_targets = []
                ds = self.result_discr_sym(ev)
                if ds is not None:
                    for kind, es in primary([n], ds, res_kind).items():
                        out.setdefault(kind, set()).update(es)
                        if kind == "ok":
                            ok_targets += [e[1] for e in es]
                ps = self.result_discr_sym(ev, (("v", 0), 0))
                if ps is not None and padt is not None:
                    for kind, es in primary(ok_targets or [n], ps, pkt_kind).items():
                        out.setdefault(kind, set()).update(es)
        return out


def thread_regions(eng):
    return sorted(set(e.region for e in eng.events if e.region.startswith("thread:")))


def region_for(world, eng, anchor_suffix):
    """region of the closure spawned by the public anchor (e.g. 'Worker::<T>::send')"""
    for r in thread_regions(eng):
        clos = r[len("thread:"):]
        parent = world.lib.bodies[clos].parent if clos in world.lib.bodies else None
        if parent is not None and parent.endswith(anchor_suffix):
            return Region(world, eng, r)
    return None


# ------------------------------------------------------------------ modular normal forms (block-number arithmetic)
def modform(eng, e, bits=16, depth=0):
    """lin expr -> dict sym->coef (mod 2^bits) + const, expanding wrapping_add/sub result symbols into their operands"""
    m = 1 << bits
    const = e[0]
    out = {}
    for s, k in e[1]:
        n = eng.sym_names[s]
        if isinstance(n, tuple) and n and n[0] == "wrap" and n[2] == bits and depth < 12:
            la = modform(eng, n[3], bits, depth + 1)
            lb = modform(eng, n[4], bits, depth + 1)
            sign = -1 if n[1] == "sub" else 1
            const += k * (la[0] + sign * lb[0])
            for s2, k2 in la[1].items():
                out[s2] = out.get(s2, 0) + k * k2
            for s2, k2 in lb[1].items():
                out[s2] = out.get(s2, 0) + k * sign * k2
        elif isinstance(n, tuple) and n and n[0] == "trunc" and isinstance(n[1], int) and n[1] >= bits and depth < 12:
            # (x as uN) with N >= bits is congruent to x modulo 2^bits
            la = modform(eng, n[2], bits, depth + 1)
            const += k * la[0]
            for s2, k2 in la[1].items():
                out[s2] = out.get(s2, 0) + k * k2
        else:
            out[s] = out.get(s, 0) + k
    out = {s: k % m for s, k in out.items() if k % m}
    return (const % m, out)


def mod_equal(a, b):
    return a[0] == b[0] and a[1] == b[1]


def mod_sub(a, b, bits=16):
    m = 1 << bits
    out = dict(a[1])
    for s, k in b[1].items():
        out[s] = (out.get(s, 0) - k) % m
    out = {s: k for s, k in out.items() if k}
    return ((a[0] - b[0]) % m, out)


def sym_is_wrap(eng, s, op=None):
    n = eng.sym_names[s]
    return isinstance(n, tuple) and n and n[0] == "wrap" and (op is None or n[1] == op)


def single_sym(e):
    if e[0] == 0 and len(e[1]) == 1 and e[1][0][1] == 1:
        return e[1][0][0]
    return None


def recv_field_syms(R):
    """integer symbols that are fields of a received packet: {sym: path}"""
    out = {}
    terms = set()
    for n in R.recv_nodes():
        for ev in R.by_node[n]:
            if not ev.inlined and isinstance(ev.ret, tuple) and ev.ret and ev.ret[0] == "t":
                terms.add(ev.ret[1])
    for nm, sid in R.eng.sym_ids.items():
        if isinstance(nm, tuple) and nm and nm[0] == "proj" and nm[1] in terms:
            out[sid] = nm[2]
    return out


def call_sites_in_frame(R, nodes, fid):
    """call sites of frame fid through which the given (deeper) nodes are reached, plus nodes of fid itself"""
    out = set()
    for n in nodes:
        f = n[0]
        if f == fid:
            out.add(n)
            continue
        while len(f) > len(fid):
            site = f[-1]
            f = f[:-1]
            if f == fid and isinstance(site, tuple) and site[0] == "call":
                out.add((fid, site[3]))
    return out


def window_roots(R):
    """roots of Window objects created in the region: dest of the Window::new calls"""
    out = []
    for e in R.events:
        if e.inlined and base_name(e) == "tftpd::window::Window::new":
            if e.dest not in out:
                out.append(e.dest)
    return out


def worker_upvar(R):
    """index of the closure upvar that holds the Worker value (by type), or None"""
    prog = R.prog
    clos = R.name[len("thread:"):]
    body = prog.bodies.get(clos)
    if body is None:
        return None
    t = prog.types[body.local_ty(1)]
    if t["k"] != "closure":
        return None
    for i, u in enumerate(t["upvars"]):
        ut = prog.types[u]
        if ut["k"] == "adt" and ut["path"] == WORKER:
            return i
    return None


# positions of the settings in the public constructor Worker::new(socket, file_path, clean_on_error, blk_size, timeout,
# windowsize, repeat_amount): the crate's documented API, unlike the private field names
WORKER_NEW_PARAMS = {"socket": 1, "file_path": 2, "clean_on_error": 3, "blk_size": 4, "timeout": 5, "windowsize": 6, "repeat_amount": 7}


def worker_param_paths(world):
    """{parameter position of Worker::new: path inside the Worker value where the constructor stores it} (by interpretation
    of the constructor, so private fields may be renamed, reordered or grouped into helper structs)"""
    cached = getattr(world, "_worker_param_paths", None)
    if cached is not None:
        return cached
    prog = world.lib
    out = {}
    name = None
    for bp in prog.bodies:
        if bp.startswith(WORKER + "::") and bp.endswith("::new") and prog.bodies[bp].kind != "closure":
            name = bp
    if name is not None:
        e = world.run("fn:" + name)
        for st in e.finals:
            ret = st.store.get(("L", e.entry_frame, 0), {})
            for k, v in ret.items():
                src = None
                if v[0] == "i" and len(v[1][1]) == 1 and v[1][0] == 0 and v[1][1][0][1] == 1:
                    nm = e.sym_names[v[1][1][0][0]]
                    if isinstance(nm, tuple) and nm[0] == "init" and nm[1][0] == "L" and nm[1][1] == e.entry_frame and tuple(nm[2]) in ((), ("$secs",)):
                        src = (nm[1][2], tuple(nm[2]))
                elif v[0] == "t" and isinstance(v[1], tuple) and v[1] and v[1][0] == "init" and v[1][1][0] == "L" and v[1][1][1] == e.entry_frame and tuple(v[1][2]) == ():
                    src = (v[1][1][2], ())
                if src is not None and isinstance(src[0], int):
                    kk = tuple(k)
                    if src[1] and kk[-len(src[1]):] == src[1]:
                        kk = kk[:-len(src[1])]
                    out.setdefault(src[0], kk)
    world._worker_param_paths = out
    return out


def env_param_path(R, param_name):
    """path (inside the closure environment) of the captured Worker's copy of constructor parameter `param_name`"""
    u = worker_upvar(R)
    pp = worker_param_paths(R.world).get(WORKER_NEW_PARAMS[param_name])
    if u is None or pp is None:
        return None
    return (u,) + tuple(pp)


def env_field(R, sym, param_name):
    """is integer symbol `sym` the captured Worker's copy of the constructor parameter `param_name`?"""
    nm = R.eng.sym_names[sym] if sym is not None else None
    path = env_param_path(R, param_name)
    return isinstance(nm, tuple) and nm and nm[0] == "env" and path is not None and tuple(nm[2]) == path


def env_key(R, ev, i):
    """key (path in the closure environment) of the captured value that argument i of event ev refers to, or None"""
    v = ev.args[i] if len(ev.args) > i else None
    snap = ev.argsnap[i] if len(ev.argsnap) > i else None
    clos = R.name[len("thread:"):]
    if isinstance(snap, dict):
        pv = snap.get(())
        if isinstance(pv, tuple) and pv and pv[0] == "t" and isinstance(pv[1], tuple) and pv[1] and pv[1][0] == "env" and pv[1][1] == clos:
            return tuple(pv[1][2])
    if isinstance(v, tuple) and v and v[0] == "t" and isinstance(v[1], tuple) and v[1] and v[1][0] == "env" and v[1][1] == clos:
        return tuple(v[1][2])
    if isinstance(v, tuple) and v and v[0] == "r" and v[1][0] == "L" and v[1][1] == R.root_fid and v[1][2] == 1:
        return tuple(v[2])
    return None


def spawn_env_values(R, key):
    """listener-side values of environment leaf `key`, one per spawn event of this region's closure"""
    clos = R.name[len("thread:"):]
    out = []
    for e in R.eng.events:
        if strip_generics(e.callee) != "std::thread::spawn" or not e.args:
            continue
        a = e.args[0]
        if not (isinstance(a, tuple) and a[0] == "agg"):
            continue
        cd = a[1].get(("$closure",))
        if cd is None or cd[1][1] != clos:
            continue
        out.append(a[1].get(tuple(key)))
    return out


def same_captured_value(R, k1, k2):
    if k1 is None or k2 is None:
        return False
    if k1 == k2:
        return True
    a, b = spawn_env_values(R, k1), spawn_env_values(R, k2)
    return bool(a) and len(a) == len(b) and all(x is not None and x == y for x, y in zip(a, b))


def truncating_open(R, e):
    """File::create, or an OpenOptions chain with write(true) create(true) truncate(true) and no append(true)"""
    n = base_name(e)
    if n == "std::fs::File::create":
        return True, 0
    if n != "std::fs::OpenOptions::open":
        return False, 0
    flags = {}
    for x in R.events:
        bn = base_name(x)
        if x.ctx == e.ctx and bn.startswith("std::fs::OpenOptions::") and bn.rsplit("::", 1)[-1] in ("write", "create", "truncate", "append", "create_new", "read"):
            v = x.args[1] if len(x.args) > 1 else None
            c = v[1][0] if isinstance(v, tuple) and v[0] == "i" and not v[1][1] else None
            flags[bn.rsplit("::", 1)[-1]] = c
    ok = flags.get("write") == 1 and flags.get("create") == 1 and flags.get("truncate") == 1 and not flags.get("append")
    return ok, 1
