"""C06 - Access policy: read-only, no-overwrite and not-found are refused without effect."""
from analyzer import lin
from .common import *
from .listener import *
from .workers import region_for, truncating_open


def check(world, tier):
    prog = world.lib
    rep = Report("C06")
    rep.level = "proof"
    rep.trusted_base = ["rustc nightly MIR", "ghost monitors kind / v_exists / reply / policy discharged by the abstract interpreter through the listen loop",
                        "Fourier-Motzkin entailment"]
    rep.assumptions = ["Path::exists reflects the state of the filesystem at request time"]
    rep.explanation = ("For every request, configuration and history at once (the listen loop is interpreted with its invariant): every effect of request "
                       "handling (socket creation, client registration, handshake reply, metadata, worker spawn) is preceded, on every path, by the knowledge "
                       "that the policy allows it - WRQ: read_only == false and (target absent or overwrite); RRQ: file exists [ghost policy]; each refused "
                       "class ends its loop iteration having sent exactly the required ERROR (2 / 6 / 1) [ghost reply at the loop's back edge], from the "
                       "listening socket, with no Server field changed (history-free); the codes have discriminants 2, 6, 1; the upload sink is a truncating "
                       "create.")
    eng = world.run("listen")
    L = Listener(world, eng)
    a = rep.clause("C06.policy", "no effect before the policy decision: WRQ needs !read_only && (!exists || overwrite); RRQ needs exists")
    b = rep.clause("C06.refusals", "each refused class is answered with its ERROR code and nothing else happens")
    d = rep.clause("C06.codes", "AccessViolation = 2, FileExists = 6, FileNotFound = 1")
    e_ = rep.clause("C06.port", "refusals are sent from the listening socket to the requester")
    f = rep.clause("C06.replace", "an accepted upload opens its target truncating (old content is replaced entirely)")
    h = rep.clause("C06.history", "a refusal changes no server state")
    rep.analysed = {"listener events": len(L.events), "back states": len(eng.loop_backs.get(L.head, [])) if L.head else 0}
    gp = [o for o in eng.obligations.values() if o.kind == "ghost:policy"]
    a.need(len(gp), 8, "effects monitored for the access policy")
    for o in gp:
        a.ob(o.proven, "effect-before-policy %s in %s" % (o.detail.split(" ")[0], short(o.body)), o.residual, o.loc,
             sample={"effect": o.detail.split(" ")[0], "in": short(o.body), "policy known on every path": o.proven})
    # ---------------------------------------------------------------- refusals at the back edge of the listen loop
    codes = {}
    for i, vv in enumerate(prog.adts[ERRORCODE]["variants"]):
        codes[vv["name"]] = prog.variant_discr(ERRORCODE, i)
    for nm, want in (("AccessViolation", 2), ("FileExists", 6), ("FileNotFound", 1)):
        d.ob(codes.get(nm) == want, "code %s" % nm, "ErrorCode::%s has wire value %s, not %d" % (nm, codes.get(nm), want), sample={nm: codes.get(nm)})
    kinds = {v["name"]: i + 1 for i, v in enumerate(prog.adts[PACKET]["variants"])}
    backs = eng.loop_backs.get(L.head, []) if L.head else []
    head_state = eng.loop_heads.get(L.head)
    counts = {"read-only": 0, "exists": 0, "not-found": 0}

    def gv(s_, name):
        return s_.store.get(("G",), {}).get((name,))

    def ent_eq(s_, v, c):
        return v is not None and v[0] == "i" and s_.ctx.entails_eq(v[1], lin.const(c))

    def ent_ge1(s_, v):
        return v is not None and v[0] == "i" and s_.ctx.entails(lin.le(lin.const(1), v[1]))

    def sfield(s_, name):
        pth = L.fi.get(name)
        return eng.read(s_, L.self_root, tuple(pth), eng.static_type(L.self_root, tuple(pth))) if pth is not None else None

    for s_ in backs:
        kind, ex, rp, sp = gv(s_, "kind"), gv(s_, "v_exists"), gv(s_, "reply"), gv(s_, "spawned")
        vc, va = gv(s_, "v_contains"), gv(s_, "v_any")
        valid = ent_eq(s_, vc, 0) and ent_ge1(s_, va)
        ro, ow = sfield(s_, "read_only"), sfield(s_, "overwrite")
        cls = None
        if ent_eq(s_, kind, kinds.get("Wrq", -1)) and ent_ge1(s_, ro):
            cls, want = "read-only", "AccessViolation"
        elif ent_eq(s_, kind, kinds.get("Wrq", -1)) and ent_eq(s_, ro, 0) and valid and ent_ge1(s_, ex) and ent_eq(s_, ow, 0):
            cls, want = "exists", "FileExists"
        elif ent_eq(s_, kind, kinds.get("Rrq", -1)) and valid and ent_eq(s_, ex, 0):
            cls, want = "not-found", "FileNotFound"
        if cls is None:
            continue
        counts[cls] += 1
        okr = ent_eq(s_, rp, 100 + codes.get(want, -100))
        b.ob(okr, "refusal-reply %s" % cls, "a %s request is not answered with ERROR %s (last reply code at the end of the iteration: %s)"
             % (cls, want, lin.show(rp[1]) if rp is not None and rp[0] == "i" else "none"), sample={"class": cls, "reply": want})
        b.ob(not ent_ge1(s_, sp) and (sp is None or ent_eq(s_, sp, 0) or s_.ctx.entails_eq(sp[1], eng.read(head_state, ("G",), ("spawned",))[1]) if head_state is not None and sp is not None and sp[0] == "i" else True),
             "refusal-spawns %s" % cls, "a %s request starts a transfer" % cls)
        # history-free: Server fields unchanged in this iteration
        if head_state is not None:
            same = s_.store.get(L.self_root, {}) == head_state.store.get(L.self_root, {})
            h.ob(same, "refusal-changes-server-state %s" % cls, "a refused %s request modifies Server fields (later decisions would depend on earlier requests)" % cls,
                 sample={"class": cls, "Server fields unchanged": same})
    for cls, n in counts.items():
        b.need(n, 1, "loop iterations of the refused class '%s'" % cls)
    # ---------------------------------------------------------------- port
    for (se, snap) in L.sends():
        code = L.error_code_of(snap)
        if code is None:
            continue
        e_.ob(L.field_ref(se.args[0], "socket"), "refusal-from-other-socket in %s" % short(se.body), "ERROR %s is not sent through the listening socket" % code, se.loc,
              sample={"ERROR": code, "sent via": "Server.socket"})
        # destination: the requester (`from` of the datagram)
        to = se.args[2] if len(se.args) > 2 else None
        tsnap = arg_pointee(se, 2)
        tv = tsnap.get(()) if tsnap else None
        okto = isinstance(tv, tuple) and tv[0] == "t" and term_contains(tv, lambda t: isinstance(t, tuple) and len(t) > 1 and t[1] == "peer_addr_of_datagram") or \
            (isinstance(tv, tuple) and tv[0] == "t" and isinstance(tv[1], tuple) and tv[1][0] in ("join", "phi", "proj"))
        e_.ob(okto, "refusal-to-other-address in %s" % short(se.body), "ERROR %s is not addressed to the datagram's source" % code, se.loc)
    e_.need(len([1 for (se, snap) in L.sends() if L.error_code_of(snap)]), 4, "ERROR replies on the listener")
    # ---------------------------------------------------------------- the policy looks at the file the transfer will touch
    # the path whose existence decides (Path::exists / try_exists / is_file) is the same value as the path handed to the worker
    pol = rep.clause("C06.path", "the existence test that decides the policy is made on the very path the worker opens")
    spawns = [x for x in L.events if base_name(x) == "std::thread::spawn"]
    tests = [x for x in L.events if not x.inlined and base_name(x) in ("std::path::Path::exists", "std::path::Path::try_exists", "std::path::Path::is_file")]
    pol.need(len(set(x.node for x in spawns)), 2, "worker spawns on the listener")
    pol.need(len(set(x.node for x in tests)), 2, "existence tests on the listener")
    for sp in spawns:
        env = sp.args[0][1] if isinstance(sp.args[0], tuple) and sp.args[0][0] == "agg" else {}
        wpaths = [v for k, v in env.items() if isinstance(v, tuple) and v and v[0] == "t" and term_contains(v, is_app("std::path::Path::join"))]
        mine = [x for x in tests if x.ctx[:2] == sp.ctx[:2]]
        tested = []
        for x in mine:
            sn = arg_pointee(x, 0) or {}
            tv = sn.get(())
            if tv is not None:
                tested.append(tv)
            elif isinstance(x.args[0], tuple) and x.args[0][0] == "t":
                tested.append(x.args[0])
        same = bool(wpaths) and bool(tested) and all(any(tv == wp for tv in tested) for wp in wpaths)
        pol.ob(same, "policy-tests-other-path in %s" % short(frame_fn(sp.ctx[:2])),
               "the file whose existence decides whether the request is allowed is not the file the worker opens (e.g. the test is made on the name as sent, "
               "the worker gets the converted name): an existing target can be overwritten without --overwrite / a missing one served", sp.loc,
               sample={"handler": short(frame_fn(sp.ctx[:2])), "tested path == worker path": same})
    # ---------------------------------------------------------------- replace entirely
    Rv = region_for(world, eng, "::receive")
    if Rv is None:
        f.fail("anchor-lost receive-closure", "closure spawned by Worker::receive not found")
    else:
        creates = [x for x in Rv.events if not x.inlined and base_name(x) in ("std::fs::File::create", "std::fs::OpenOptions::open", "std::fs::File::create_new")]
        f.need(len(creates), 1, "creation of the upload target")
        for x in creates:
            okt, _ = truncating_open(Rv, x)
            f.ob(okt, "upload-not-truncating", "the upload target is opened with %s without truncation: with --overwrite a shorter upload leaves the old tail" % base_name(x), x.loc,
                 sample={"open": base_name(x), "truncating": okt})
    return rep
