"""Helpers for the listener region (Server::listen with handlers inlined)."""
from analyzer import lin
from .common import *

SERVER = "tftpd::server::Server"
PACKET = "tftpd::packet::Packet"
ERRORCODE = "tftpd::packet::ErrorCode"

FS_PREFIXES = ("std::fs::", "std::path::Path::exists", "std::path::Path::metadata", "std::path::Path::is_file", "std::path::Path::is_dir",
               "std::path::Path::read_dir", "std::path::Path::canonicalize", "std::path::Path::symlink_metadata", "std::path::Path::read_link",
               "std::path::Path::try_exists", "std::path::Path::is_symlink")
FS_PURE = ("std::fs::Metadata::len", "std::fs::Metadata::is_file", "std::fs::Metadata::is_dir", "std::fs::Metadata::permissions")


class Listener:
    def __init__(self, world, eng):
        self.world = world
        self.prog = world.lib
        self.eng = eng
        self.g = graph_of(eng)
        self.entry = (eng.entry_frame, 0)
        self.self_root = ("P", ("L", eng.entry_frame, 1), ())
        self.events = [e for e in eng.events if e.region == "listener"]
        self.by_node = {}
        for e in self.events:
            self.by_node.setdefault(e.node, []).append(e)
        # role -> path inside the Server value (analyzer/world.py: server_layout): roles are Config's public field names
        # plus socket / clients / largest_block_size
        self.fi = dict(world.server_layout())
        heads = [k for k in eng.loop_invariants if k[0] == eng.entry_frame]
        self.head = heads[0] if heads else None

    def field_ref(self, v, name):
        """value v is a reference to Server field `name` of the listener's self"""
        pth = self.fi.get(name)
        return pth is not None and isinstance(v, tuple) and bool(v) and v[0] == "r" and v[1] == self.self_root and tuple(v[2][:len(pth)]) == tuple(pth)

    def field_sym(self, name):
        pth = self.fi.get(name)
        if pth is None:
            return None
        return self.eng.sym_ids.get(("init", self.self_root, tuple(pth)))

    def fs_events(self, region_prefix=None):
        out = []
        for e in self.eng.events:
            if e.inlined:
                continue
            if region_prefix is not None and not e.region.startswith(region_prefix):
                continue
            n = base_name(e)
            if n.startswith(FS_PREFIXES) and n not in FS_PURE:
                out.append(e)
        return out

    def result_true_edges(self, ev):
        """edges taken when the (opaque) bool result of a call event is true / false"""
        r = ev.ret
        sid = None
        if isinstance(r, tuple) and r and r[0] == "i":
            e = r[1]
            if e[0] == 0 and len(e[1]) == 1 and e[1][0][1] == 1:
                sid = e[1][0][0]
        te, fe = set(), set()
        if sid is None:
            return te, fe
        for edge, conds in self.eng.edge_conds.items():
            for c in conds:
                if c[0] in ("eq", "neq"):
                    ee = c[1]
                    if len(ee[1]) == 1 and ee[1][0][0] == sid and ee[0] == 0:
                        if c[0] == "eq":
                            (te if c[2] != 0 else fe).add(edge)
                        else:
                            (te if 0 in c[2] else fe).add(edge)
                elif c[0] == "bool" and c[1][0] == "cmp":
                    op, a, b, truth = c[1][1], c[1][2], c[1][3], c[2]
                    sa = [s for s, _ in a[1]] + [s for s, _ in b[1]]
                    if sa == [sid] and ((not a[1] and a[0] == 0) or (not b[1] and b[0] == 0)):
                        nz = (op == "Ne" and truth) or (op == "Eq" and not truth)
                        (te if nz else fe).add(edge)
        return te, fe

    def sends(self):
        """reply sends on the listening socket: inlined `send_to` of the UdpSocket impl; returns [(event, packet snapshot)]"""
        out = []
        for e in self.events:
            if e.inlined and base_name(e).endswith("socket::Socket>::send_to") and "UdpSocket" in base_name(e):
                out.append((e, arg_pointee(e, 1)))
        return out

    def error_code_of(self, snap):
        """ErrorCode variant name carried by a Packet::Error snapshot, else None"""
        prog = self.prog
        if snap is None:
            return None
        dv = discr_of(snap)
        if variant_name(prog, PACKET, dv) != "Error":
            return None
        vi = prog.variant_by_discr(PACKET, dv)
        names = [f["name"] for f in prog.adts[PACKET]["variants"][vi]["fields"]]
        ci = names.index("code") if "code" in names else 0
        v = snap.get((("v", vi), ci, "$discr"))
        if v is not None and v[0] == "i" and not v[1][1]:
            return variant_name(prog, ERRORCODE, v[1][0])
        return None

    def frames_under(self, fn_suffix):
        return sorted(set(e.ctx[:i + 1] for e in self.events for i, f in enumerate(e.ctx)
                          if isinstance(f, tuple) and len(f) > 1 and isinstance(f[1], str) and f[1].endswith(fn_suffix)), key=repr)


def path_term_info(lst, v, snap=None):
    """analyse the value of a path: is it  Path::join(<Server dir field>, <converted request filename>) ?
    returns dict(root_field=..., relative=bool) or None"""
    t = v
    if isinstance(v, tuple) and v and v[0] == "r" and snap is not None:
        t = snap.get(())
    if not (isinstance(t, tuple) and t and t[0] == "t"):
        return None
    joins = find_terms(t, is_app("std::path::Path::join"))
    if not joins:
        return None
    j = joins[0]
    args = j[3] if len(j) > 3 else ()
    if len(args) < 2:
        return None
    root_field = None
    for name, i in lst.fi.items():
        if lst.field_ref(args[0], name):
            root_field = name
    relative = term_contains(args[1], is_app("core::str::<impl str>::trim_start_matches"))
    return {"root_field": root_field, "relative": relative, "join": j, "outermost_is_join": t[1] is j or (isinstance(t[1], tuple) and t[1][:2] == j[:2])}


def buffer_monotone(world, eng, clause, why):
    """single-port mode: every write to the listener's receive-buffer size keeps it >= its old value"""
    L = Listener(world, eng)
    fi_lbs = L.fi.get("largest_block_size")
    nwr = 0
    for (node, root, path, old, new, cx) in eng.mem_writes:
        if root == L.self_root and fi_lbs is not None and tuple(path) == tuple(fi_lbs):
            nwr += 1
            ok = old[0] == "i" and new[0] == "i" and cx.entails(lin.le(old[1], new[1]))
            clause.ob(ok, "receive-buffer-shrinks in %s" % short(frame_fn(node[0])),
                      "a request can SHRINK the single-port listener's receive buffer: %s" % why,
                      eng.frame_bodies[node[0]].loc(node[1]) if node[0] in eng.frame_bodies else "",
                      sample={"largest_block_size write": "new >= old", "entailed": ok})
    clause.need(nwr, 2, "writes to the listener's buffer size")
