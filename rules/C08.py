"""C08 - Window flow control; retransmit only on time-out or gap, never on a duplicate ACK."""
from analyzer import lin
from .common import *
from .workers import *
from .C04 import timer_test_edges


def check(world, tier):
    prog = world.lib
    rep = Report("C08")
    rep.level = "other"
    rep.trusted_base = ["rustc nightly MIR", "abstract interpreter (loop invariant len <= size, obligations)", "path queries on the inlined supergraph"]
    rep.explanation = ("Decided on the MIR of both worker closures: (a) the loop invariant len(queue) <= size with size = the negotiated windowsize, and a "
                       "burst sends exactly the queue; (b) cumulative ACK: C01.a; (c) every DATA transmission is behind the time-out test, and a rejected "
                       "ACK reaches the next receive without sending, re-arming the timer, moving the window or returning; (d) the acceptance guard entails "
                       "distance < len(queue) (remove and distance+1 obligations discharged for every windowsize 1..65535), so duplicates are never accepted; "
                       "(e) after accepting a block the receiver can only go back to the receive through the not-full and not-short edges. "
                       "NOT decided: real-time behaviour of the timer.")
    eng = world.run("listen")
    S = region_for(world, eng, "::send")
    Rv = region_for(world, eng, "::receive")
    a = rep.clause("C08.a", "never more than windowsize blocks outstanding: invariant len(queue) <= size = negotiated windowsize; a burst sends the queue")
    c = rep.clause("C08.c", "transmission only behind the time-out test; a rejected ACK causes no transmission, no timer re-arm, no window move, no abort")
    d = rep.clause("C08.d", "acceptance guard entails distance < len(queue): no abort, no overflow, duplicates never accepted (all windowsizes)")
    e_ = rep.clause("C08.e", "receiver acknowledges at the latest when the window is full and on a short block")
    if S is None or Rv is None:
        a.fail("anchor-lost worker-closures", "closures spawned by Worker::send / Worker::receive not found")
        return rep
    rep.analysed = {"regions": [S.name, Rv.name]}
    g = S.g
    tf = S.transfer_frame()
    lps = S.transfer_loops()
    wl = world.window_layout()
    fi_el = wl.get("elements")
    fi_sz = wl.get("size")
    # ---------------------------------------------------------- a
    wr = window_roots(S)
    a.need(len(wr), 1, "Window created in the send region")
    if wr and lps and fi_el is not None and fi_sz is not None:
        root, path = wr[0]
        for lp in lps:
            hs = eng.loop_heads.get(lp)
            if hs is None:
                a.ob(False, "no-loop-head-state", "no invariant recorded for the send loop")
                continue
            ln = eng.read(hs, root, tuple(path) + tuple(fi_el) + ("$len",))
            sz = eng.read(hs, root, tuple(path) + tuple(fi_sz))
            ok = ln[0] == "i" and sz[0] == "i" and hs.ctx.entails(lin.le(ln[1], sz[1]))
            a.ob(ok, "len<=size at loop %s" % lp[1], "len(window) <= size is not an invariant of the sender's loop",
                 sample={"loop head": lp[1], "entails": "len(elements) <= size"})
            # size is the negotiated windowsize
            sym = single_sym(sz[1]) if sz[0] == "i" else None
            nm = eng.sym_names[sym] if sym is not None else None
            okp = env_field(S, sym, "windowsize")
            a.ob(okp, "size-is-windowsize", "the window size is not the worker's negotiated windowsize", sample={"size": str(nm)[:80]})
        # burst iterates the queue
        its = [e for e in S.events if base_name(e).startswith("<&'a std::collections::VecDeque<T, A> as std::iter::IntoIterator>::into_iter")
               or base_name(e) == "std::collections::VecDeque::iter"]
        over_queue = [e for e in its if e.args and isinstance(e.args[0], tuple) and e.args[0][0] == "r" and e.args[0][1] == root and
                      tuple(e.args[0][2][:len(path) + len(fi_el)]) == tuple(path) + tuple(fi_el)]
        a.need(len(over_queue), 1, "iteration over the window queue (burst)")
    # ---------------------------------------------------------- c
    if lps:
        fid, h = lps[0]
        loopn = S.loop_nodes(fid, h)
        outside = set(g.succ.keys()) - loopn
        data_sends = set(S.send_nodes(variants=("Data",)))
        c.need(len(data_sends), 1, "DATA transmissions in the send region")
        tedges, tevs = timer_test_edges(S, loopn)
        for n in data_sends:
            ok = bool(tedges) and g.dominated_by_edges(S.entry, n, tedges)
            c.ob(ok, "data-behind-timeout-test", "a DATA transmission is reachable without passing the time-out test (Sorcerer's-Apprentice risk)",
                 sample={"send": node_str(prog, n), "dominated by time-out test": ok})
        oe = S.recv_outcome_edges()
        ack_edges = [e for e in oe.get(("pkt", "Ack"), ()) if e[0] in loopn]
        c.need(len(ack_edges), 1, "ACK edge in the send loop")
        drains = set(S.drain_nodes())
        recvs = set(S.recv_nodes())
        errret = set(S.ret_nodes(tf, 1))
        okret = set(S.ret_nodes(tf, 0))
        nows = set(e.node for e in S.events if base_name(e) == "std::time::Instant::now")
        for e in ack_edges:
            # the part of the graph a rejected ACK travels: from the ACK edge to the next receive without draining
            head = (fid, h)
            r = g.reachable([e[1]], avoid_nodes=drains, stop_at=recvs | set([head]))
            r_inner = r - recvs - set([head])
            c.ob(head in r, "rejected-ack-returns-to-loop", "a rejected ACK does not come back to the receive loop head", nontrivial=False)
            bad = []
            if r_inner & data_sends:
                bad.append("transmits DATA")
            if r_inner & nows:
                bad.append("re-arms the timer")
            if r & (errret | okret):
                bad.append("returns")
            # window move: writes to the block-number local on this path
            c.ob(not bad, "rejected-ack-is-inert", "a rejected (duplicate / stale) ACK %s before the next receive" % ", ".join(bad),
                 sample={"ACK edge": node_str(prog, e[0]), "rejected-ACK path nodes": len(r_inner), "effects": bad})
    # ---------------------------------------------------------- d
    obs = [o for o in S.transfer_obligations() if o.kind in ("assert", "range", "index", "unwrap")]
    d.need(len(obs), 2, "obligations of the acceptance path (distance + 1, remove, counters)")
    for o in obs:
        d.ob(o.proven, ob_key(o), "acceptance guard too weak: %s cannot be shown (%s); e.g. a duplicate ACK with windowsize 65535 or a stale ACK on a short final window"
             % (o.detail, o.residual), o.loc, sample={"obligation": o.kind + " " + o.detail, "at": o.loc, "proven": o.proven})
    # ---------------------------------------------------------- e
    lpr = Rv.transfer_loops()
    if lpr:
        fid, h = lpr[0]
        gr = Rv.g
        loopn = Rv.loop_nodes(fid, h)
        outside = set(gr.succ.keys()) - loopn
        pushes = set(Rv.push_nodes())
        recvs = set(Rv.recv_nodes())
        e_.need(len(pushes), 1, "accepting push in the receive region")
        # tests after the push: edges whose condition compares the queue length with the size (full) or the payload length (short)
        full_go = set()
        short_go = set()
        wrr = window_roots(Rv)
        for edge, conds in eng.edge_conds.items():
            if edge[0] not in loopn:
                continue
            for cnd in conds:
                if cnd[0] != "bool" or cnd[1][0] != "cmp":
                    continue
                op, aa, bb, truth = cnd[1][1], cnd[1][2], cnd[1][3], cnd[2]
                names = [eng.sym_names[s] for s, _ in aa[1]] + [eng.sym_names[s] for s, _ in bb[1]]
                is_len_payload = any(isinstance(n, tuple) and n and n[0] == "len" and isinstance(n[1], tuple) and n[1] and n[1][0] == "app" for n in names)
                is_queue_len = any(isinstance(n, tuple) and n and n[0] == "phi" and len(n) == 5 and n[4] and n[4][-1] == "$len" for n in names) or \
                    any(((isinstance(n, str) and n.startswith("trunc#")) or (isinstance(n, tuple) and n and n[0] == "trunc")) for n in names)
                if is_len_payload and op in ("Lt", "Ge", "Le", "Gt"):
                    # "not short" edge: the one on which  len(data) < blk  is false
                    lt_true = (op == "Lt" and truth) or (op == "Ge" and not truth)
                    if not lt_true:
                        short_go.add(edge)
                elif is_queue_len and op in ("Eq", "Ne", "Ge", "Lt"):
                    full_true = (op in ("Eq", "Ge") and truth) or (op in ("Ne", "Lt") and not truth)
                    if not full_true:
                        full_go.add(edge)
        e_.need(len(short_go), 1, "short-block test after accepting a block")
        e_.need(len(full_go), 1, "window-full test after accepting a block")
        ack_sites = set(Rv.send_nodes(variants=("Ack",)))
        for p in pushes:
            for (name, go) in (("short-block", short_go), ("window-full", full_go)):
                r = gr.reachable([p], avoid_edges=go, avoid_nodes=outside | ack_sites, stop_at=recvs)
                ok = not (r & recvs)
                e_.ob(ok, "receive-without-%s-test" % name,
                      "after accepting a block the receiver can wait for the next datagram without the %s test: it may never acknowledge a full window / final block" % name,
                      sample={"push": node_str(prog, p), "test": name, "next receive only via the test's continue-edge": ok})
    # the receiver's "window full" test relies on the Window contract (shared with C18)
    from . import C18
    import_clause(world, tier, e_, C18, "C18.add", ("",), "Window::add contract")
    import_clause(world, tier, e_, C18, "C18.invariant", ("add:", "is_full"), "Window invariant on the receive side")
    return rep
