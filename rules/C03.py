"""C03 - Directory confinement: no request reads or writes outside the configured directories."""
from analyzer import lin
from .common import *
from .listener import *
from .workers import thread_regions, region_for


def check(world, tier):
    prog = world.lib
    rep = Report("C03")
    rep.level = "proof"
    rep.trusted_base = ["rustc nightly MIR", "value provenance terms of the abstract interpreter", "edge-dominance on the inlined supergraph",
                        "lexical path argument: no '..' substring and an ancestor equal to the root => location under the root"]
    rep.assumptions = ["A-SYMLINK / A-PATHSEM: no symlink or mount point inside a served directory leads outside; lexical reasoning is sound for Path",
                       "A-UTF8: served directories are valid UTF-8"]
    rep.explanation = ("For every request filename at once (the filename is a symbolic value): (a) every filesystem call on the listener and in both workers "
                       "receives the path  join(<root>, convert(filename))  (provenance terms; worker-side paths by substitution of the spawn environment), and no "
                       "other filesystem API is used; (b) the root joined, the root given to the validator and the root compared inside the ancestors test are "
                       "the same Server field - send_directory on the path to Worker::send, receive_directory on the path to Worker::receive; (c) worker "
                       "creation, socket creation, the handshake reply and every filesystem call are edge-dominated by  contains('..') == false  and  "
                       "ancestors().any(== root) == true; the rejecting edges send ERROR AccessViolation and have no filesystem or spawn effect; "
                       "(d) the validator is exactly that conjunction; (e) the converted name is relative (leading '/' and '\\\\' trimmed). "
                       "NOT decided: symlinks inside the served tree.")
    eng = world.run("listen")
    L = Listener(world, eng)
    g = L.g
    a = rep.clause("C03.a", "every filesystem call uses join(root, convert(filename)); no other filesystem API")
    b = rep.clause("C03.b", "same root everywhere: send_directory for reads, receive_directory for writes")
    c = rep.clause("C03.c", "gate: validation dominates every effect; rejection has no effect and answers ERROR 2")
    d = rep.clause("C03.d", "validator = not contains('..') and ancestors().any(== root)")
    e_ = rep.clause("C03.e", "the converted name is relative")
    rep.analysed = {"listener events": len(L.events), "fs events": len(L.fs_events())}
    # ---------------------------------------------------------------- validators
    contains = [e for e in L.events if base_name(e) == "core::str::<impl str>::contains"]
    anys = [e for e in L.events if base_name(e) == "std::iter::Iterator::any"]
    d.need(len(set(e.node for e in contains)), 2, "'..' tests (one per handler)")
    d.need(len(set(e.node for e in anys)), 2, "ancestor tests (one per handler)")
    validators = {}   # frame -> dict
    for ce in contains:
        pat = ce.args[1] if len(ce.args) > 1 else None
        is_dd = isinstance(pat, tuple) and pat[0] == "r" and pat[1] == ("K", ("str", ".."))
        d.ob(is_dd, "dotdot-pattern in %s" % short(ce.body), "the substring test of the validator does not look for '..'", ce.loc,
             sample={"contains pattern": ".." if is_dd else repr(pat)[:40]})
        # tested string is to_str of the path given to the validator
        s0 = ce.args[0]
        to_str_ok = isinstance(s0, tuple) and s0[0] == "r" and term_contains(s0, is_app("std::path::Path::to_str"))
        d.ob(to_str_ok, "dotdot-on-path in %s" % short(ce.body), "'..' is not searched in the path itself", ce.loc)
        validators.setdefault(ce.ctx, {})["contains"] = ce
        validators[ce.ctx].setdefault("contains_all", []).append(ce)
    for ae in anys:
        validators.setdefault(ae.ctx, {})["any"] = ae
        validators[ae.ctx].setdefault("any_all", []).append(ae)
    closure_checked = set()
    for fid, v in validators.items():
        ok = "contains" in v and "any" in v
        d.ob(ok, "validator-conjunction in %s" % short(frame_fn(fid)), "the validator lacks the %s test" % ("ancestor" if "contains" in v else "'..'"),
             sample={"validator frame": short(frame_fn(fid)), "tests": sorted(v.keys())})
        if not ok:
            continue
        ae, ce = v["any"], v["contains"]
        # any() iterates the ancestors of the same path and compares with the root captured by the closure
        it = ae.args[0]
        anc_ok = term_contains(ae.argsnap[0] if ae.argsnap and ae.argsnap[0] else it, is_app("std::path::Path::ancestors")) or \
            term_contains(it, is_app("std::path::Path::ancestors"))
        d.ob(anc_ok, "any-over-ancestors in %s" % short(ae.body), "the ancestor test does not iterate Path::ancestors() of the path", ae.loc)
        clos = ae.args[1] if len(ae.args) > 1 else None
        cap = clos[1].get((0,)) if isinstance(clos, tuple) and clos[0] == "agg" else None
        # the closure captures a reference to a local/parameter that holds the root reference: resolve through
        # the arguments of the (inlined) call that created this frame
        root_ref = cap
        hops = 0
        while isinstance(root_ref, tuple) and root_ref and root_ref[0] == "r" and root_ref[1][0] == "L" and hops < 4:
            hops += 1
            lfid, lidx = root_ref[1][1], root_ref[1][2]
            site = lfid[-1] if lfid else None
            body_ = eng.frame_bodies.get(lfid)
            if not (isinstance(site, tuple) and site[0] == "call" and body_ is not None and isinstance(lidx, int) and 1 <= lidx <= body_.arg_count and root_ref[2] == ()):
                break
            call_node = (lfid[:-1], site[3])
            cands_ = [x for x in L.by_node.get(call_node, []) if x.inlined and len(x.args) >= lidx]
            if not cands_:
                break
            root_ref = cands_[0].args[lidx - 1]
        v["root_ref"] = root_ref
        cd = clos[1].get(("$closure",)) if isinstance(clos, tuple) and clos[0] == "agg" else None
        cdef = cd[1][1] if cd is not None else None
        if cdef is not None and cdef not in closure_checked:
            closure_checked.add(cdef)
            body = prog.bodies.get(cdef)
            eqs = 0
            others = []
            if body is not None:
                for blk in body.blocks:
                    t = blk["term"]
                    if t["k"] == "call":
                        nm = strip_generics(t["fn"].get("resolved") or t["fn"].get("def", ""))
                        if nm.endswith("::eq") and "PartialEq" in nm:
                            eqs += 1
                        else:
                            others.append(nm)
            d.ob(eqs == 1 and not others, "ancestor-closure-is-equality", "the closure of the ancestor test is not a plain `ancestor == root` comparison "
                 "(calls: eq x%d, others %s)" % (eqs, others), sample={"closure": short(cdef), "eq calls": eqs})
        # the result is the conjunction: contains == false edge and any == true edge both dominate the validator's true result
        v["c_true"], v["c_false"], v["a_true"], v["a_false"] = set(), set(), set(), set()
        for x in v["contains_all"]:
            t_, f_ = L.result_true_edges(x)
            v["c_true"] |= t_
            v["c_false"] |= f_
        for x in v["any_all"]:
            t_, f_ = L.result_true_edges(x)
            v["a_true"] |= t_
            v["a_false"] |= f_
    # ---------------------------------------------------------------- handlers: one per spawn kind
    spawns = [e for e in L.events if base_name(e) == "std::thread::spawn"]
    c.need(len(set(e.node for e in spawns)), 2, "worker spawns on the listener")
    news = [e for e in L.events if e.inlined and base_name(e).endswith("worker::Worker::new")]
    fs = L.fs_events("listener")
    a.need(len(set(e.node for e in fs)), 3, "filesystem calls on the listener (exists, metadata)")
    kinds = {}
    for sp in spawns:
        clos_t = sp.args[0]
        cd = clos_t[1].get(("$closure",)) if isinstance(clos_t, tuple) and clos_t[0] == "agg" else None
        cdef = cd[1][1] if cd is not None else ""
        parent = prog.bodies[cdef].parent if cdef in prog.bodies else ""
        kind = "send" if parent.endswith("::send") else ("receive" if parent.endswith("::receive") else "?")
        want_root = "send_directory" if kind == "send" else "receive_directory"
        kinds.setdefault(kind, []).append(sp)
        # environment of the spawned closure: every PathBuf it captures is the validated path of this handler
        env = clos_t[1] if isinstance(clos_t, tuple) and clos_t[0] == "agg" else {}
        paths = [(k, v) for k, v in env.items() if isinstance(v, tuple) and v and v[0] == "t" and term_contains(v, is_app("std::path::Path::join"))]
        a.ob(len(paths) >= 1, "worker-path-provenance %s" % kind, "the %s worker's file path is not join(root, convert(filename))" % kind, sp.loc)
        for k, v in paths:
            info = path_term_info(L, v)
            okp = info is not None and info["root_field"] == want_root and info["relative"]
            b.ob(okp, "worker-root %s" % kind, "the %s worker's path is joined to %s instead of %s" % (kind, info["root_field"] if info else "?", want_root), sp.loc,
                 sample={"worker": kind, "path": "join(self.%s, convert(filename))" % (info["root_field"] if info else "?")})
        # root compared inside the validator of this handler
        handler_validators = [v for fid, v in validators.items() if fid[:2] == sp.ctx[:2] and "any" in v and "contains" in v]
        c.ob(len(handler_validators) >= 1, "no-validator-on-path %s" % kind, "no path validation in the handler that spawns the %s worker" % kind, sp.loc)
        for v in handler_validators:
            cap = v.get("root_ref")
            b.ob(L.field_ref(cap, want_root), "validator-root %s" % kind, "the ancestor test of the %s handler compares with another directory than %s" % (kind, want_root),
                 v["any"].loc, sample={"ancestor == ": "self." + want_root})
            # the validated path is the path that is used: the path whose ancestors are walked is the join result
            snap = arg_pointee(v["any"], 0)
    a.ob(set(kinds) >= {"send", "receive"}, "both-handlers", "spawn of send and receive workers not both found: %s" % sorted(kinds), nontrivial=False)
    # ---------------------------------------------------------------- c gate (ghost monitor 'validated')
    gv = [o for o in eng.obligations.values() if o.kind == "ghost:validated"]
    c.need(len(gv), 10, "effects on the listener monitored for prior validation")
    for o in gv:
        c.ob(o.proven, "effect-before-validation %s in %s" % (o.detail.split(" ")[0], short(o.body)), o.residual, o.loc,
             sample={"effect": o.detail.split(" ")[0], "in": short(o.body), "validated on every path": o.proven})
    # rejection is answered with ERROR AccessViolation: at the listen loop's back edge, validation failed => reply == AccessViolation
    av = None
    for i, vv in enumerate(prog.adts[ERRORCODE]["variants"]):
        if vv["name"] == "AccessViolation":
            av = prog.variant_discr(ERRORCODE, i)
    backs = eng.loop_backs.get(L.head, []) if L.head else []
    rejected = 0
    for s_ in backs:
        d_ = s_.store.get(("G",), {})
        vc, va, rp = d_.get(("v_contains",)), d_.get(("v_any",)), d_.get(("reply",))
        failed = (vc is not None and vc[0] == "i" and s_.ctx.entails(lin.le(lin.const(1), vc[1]))) or \
                 (va is not None and va[0] == "i" and s_.ctx.entails_eq(va[1], lin.const(0)))
        if failed:
            rejected += 1
            okr = rp is not None and rp[0] == "i" and av is not None and s_.ctx.entails_eq(rp[1], lin.const(100 + av))
            c.ob(okr, "rejection-without-error-2", "a request whose path failed validation is not answered with ERROR AccessViolation (last reply code: %s)"
                 % (lin.show(rp[1]) if rp is not None and rp[0] == "i" else "none"), sample={"validation failed": True, "reply": "ERROR 2"})
    c.need(rejected, 2, "loop iterations ending with a failed validation (RRQ and WRQ, '..' and ancestor test)")
    # ---------------------------------------------------------------- d validator function on its own
    vfns = set(eng.frame_bodies[fid].path for fid, v in validators.items() if "any" in v and "contains" in v)
    for vf in sorted(vfns):
        ev_ = world.run("fn:" + vf)
        d.need(len(ev_.finals), 2, "return states of the validator")
        for s_ in ev_.finals:
            rv = ev_.read(s_, ("L", ev_.entry_frame, 0), ())
            d_ = s_.store.get(("G",), {})
            vc, va = d_.get(("v_contains",)), d_.get(("v_any",))
            if rv[0] == "i" and rv[1] == (0, ()):
                d.ob(True, "validator-false-path", "", nontrivial=False)
                continue
            ok = va is not None and rv == va and vc is not None and vc[0] == "i" and s_.ctx.entails_eq(vc[1], lin.const(0))
            if rv[0] == "b":
                ok = False
            d.ob(ok, "validator-accepts-without-both-tests in %s" % short(vf),
                 "the validator can return true without  contains('..') == false  and  ancestors().any(== root) == true", sample={
                     "returns": "any-result" if ok else repr(rv)[:60], "under": "contains('..') == false"})
    # listener fs events use the validated path with the right root
    for e in fs:
        snap = arg_pointee(e, 0)
        info = path_term_info(L, e.args[0] if e.args else None, snap)
        kind = None
        for k, sps in kinds.items():
            if any(sp.ctx[:2] == e.ctx[:2] for sp in sps):
                kind = k
        want = "send_directory" if kind == "send" else "receive_directory"
        okp = info is not None and info["relative"] and info["root_field"] == want
        a.ob(okp, "fs-call-on-unvalidated-path %s in %s" % (base_name(e), short(e.body)),
             "%s in %s does not operate on join(self.%s, convert(filename))" % (base_name(e), short(e.body), want), e.loc,
             sample={"fs call": base_name(e), "path": "join(self.%s, convert(filename))" % (info["root_field"] if info else "?")})
    # worker-side fs events: path = captured PathBuf of the closure environment (validated above by substitution)
    allowed = {"send": {"std::fs::File::open"}, "receive": {"std::fs::File::create", "std::fs::remove_file"}}
    for kind in ("send", "receive"):
        R = region_for(world, eng, "::" + kind)
        if R is None:
            a.fail("anchor-lost %s-closure" % kind, "closure not found")
            continue
        wfs = [e for e in L.fs_events(R.name)]
        a.need(len(set(e.node for e in wfs)), 1, "filesystem calls in the %s worker" % kind)
        for e in wfs:
            n = base_name(e)
            a.ob(n in allowed[kind], "unexpected-fs-api %s in %s worker" % (n, kind), "the %s worker calls %s" % (kind, n), e.loc)
            v = e.args[0] if e.args else None
            snap = arg_pointee(e, 0)
            t = snap.get(()) if snap else None
            okp = isinstance(t, tuple) and t[0] == "t" and isinstance(t[1], tuple) and t[1][0] == "env"
            a.ob(okp, "worker-fs-path %s %s" % (kind, n), "%s in the %s worker does not use a path captured from the handler" % (n, kind), e.loc,
                 sample={"worker": kind, "fs call": n, "path": "captured environment value"})
    for e in fs:
        n = base_name(e)
        a.ob(n in ("std::path::Path::exists", "std::path::Path::metadata"), "unexpected-fs-api %s on listener" % n, "the listener calls %s" % n, e.loc)
    # ---------------------------------------------------------------- e relative name
    trims = [e for e in L.events if base_name(e) == "core::str::<impl str>::trim_start_matches"]
    e_.need(len(set(e.node for e in trims)), 2, "trim of leading separators (one per handler)")
    done = set()
    for e in trims:
        clos = e.args[1] if len(e.args) > 1 else None
        cd = clos[1].get(("$closure",)) if isinstance(clos, tuple) and clos[0] == "agg" else None
        cdef = cd[1][1] if cd is not None else None
        if cdef is None:
            pat = clos
            e_.ob(False, "trim-pattern", "leading separators are trimmed with an unrecognised pattern %r" % (repr(pat)[:40],), e.loc)
            continue
        if cdef in done:
            continue
        done.add(cdef)
        body = prog.bodies.get(cdef)
        consts = set()
        for blk in body.blocks:
            for st in blk["stmts"]:
                if st["k"] == "assign" and st["rv"]["k"] == "bin" and st["rv"]["op"] == "Eq":
                    for side in ("l", "r"):
                        cc = st["rv"][side].get("const")
                        if cc is not None and cc.get("kind") in ("char", "int"):
                            consts.add(int(cc["val"]))
        e_.ob({47, 92} <= consts, "trim-both-separators", "leading '/' and '\\\\' are not both trimmed from the request filename (trimmed: %s)" % sorted(consts), e.loc,
              sample={"trimmed characters": sorted(chr(x) for x in consts)})
        s0 = e.args[0]
    return rep
