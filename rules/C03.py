"""C03 - Directory confinement: no request reads or writes outside the configured directories."""
import re
from analyzer import lin
from .common import *
from .listener import *
from .workers import thread_regions, region_for


def check(world, tier):
    prog = world.lib
    rep = Report("C03")
    rep.level = "proof"
    rep.trusted_base = ["rustc nightly MIR", "value provenance terms of the abstract interpreter", "edge-dominance on the inlined supergraph",
                        "lexical path argument: no '..' substring and an ancestor equal to the root => location under the root"]
    rep.assumptions = ["A-SYMLINK / A-PATHSEM: no symlink or mount point inside a served directory leads outside; lexical reasoning is sound for Path",
                       "A-UTF8: served directories are valid UTF-8"]
    rep.explanation = ("For every request filename at once (the filename is a symbolic value): (a) every filesystem call on the listener and in both workers "
                       "receives the path  join(<root>, convert(filename))  (provenance terms; worker-side paths by substitution of the spawn environment), and no "
                       "other filesystem API is used; (b) the root joined, the root given to the validator and the root compared inside the ancestors test are "
                       "the same Server field - send_directory on the path to Worker::send, receive_directory on the path to Worker::receive; (c) worker "
                       "creation, socket creation, the handshake reply and every filesystem call are edge-dominated by  contains('..') == false  and  "
                       "ancestors().any(== root) == true; the rejecting edges send ERROR AccessViolation and have no filesystem or spawn effect; "
                       "(d) the validator is exactly that conjunction; (e) the converted name is relative (leading '/' and '\\\\' trimmed). "
                       "NOT decided: symlinks inside the served tree.")
    eng = world.run("listen")
    L = Listener(world, eng)
    g = L.g
    a = rep.clause("C03.a", "every filesystem call uses join(root, convert(filename)); no other filesystem API")
    b = rep.clause("C03.b", "same root everywhere: send_directory for reads, receive_directory for writes")
    c = rep.clause("C03.c", "gate: validation dominates every effect; rejection has no effect and answers ERROR 2")
    d = rep.clause("C03.d", "validator = not contains('..') and ancestors().any(== root)")
    e_ = rep.clause("C03.e", "the converted name is relative")
    rep.analysed = {"listener events": len(L.events), "fs events": len(L.fs_events())}
    # ---------------------------------------------------------------- validators
    contains = [e for e in L.events if base_name(e) == "core::str::<impl str>::contains"]
    anc = [x for x in eng.anc_eq_log if x["ctx"][:1] == (eng.entry_frame[0],)]
    d.need(len(set(e.node for e in contains)), 2, "'..' tests (one per handler)")
    d.need(len(set(x["node"] for x in anc)), 2, "ancestor tests (one per handler)")
    validators = {}   # handler frame (listen + handler call) -> {"contains": event, "any": ancestor comparison, "root_refs": [...]}
    for ce in contains:
        pat = ce.args[1] if len(ce.args) > 1 else None
        is_dd = isinstance(pat, tuple) and pat[0] == "r" and pat[1] == ("K", ("str", ".."))
        d.ob(is_dd, "dotdot-pattern in %s" % short(ce.body), "the substring test of the validator does not look for '..'", ce.loc,
             sample={"contains pattern": ".." if is_dd else repr(pat)[:40]})
        # tested string is to_str of the path given to the validator
        s0 = ce.args[0]
        to_str_ok = isinstance(s0, tuple) and s0[0] == "r" and term_contains(s0, is_app("std::path::Path::to_str"))
        d.ob(to_str_ok, "dotdot-on-path in %s" % short(ce.body), "'..' is not searched in the path itself", ce.loc)
        validators.setdefault(ce.ctx[:2], {})["contains"] = ce
    for x in anc:
        v = validators.setdefault(x["ctx"][:2], {})
        v["any"] = x
        v.setdefault("root_refs", []).extend(x["other"])
        # the ancestors walked are those of the request's joined path
        pv = x["path_value"]
        info = path_term_info(L, pv) if pv is not None else None
        d.ob(info is not None and info["relative"], "ancestors-of-other-path in %s" % short(frame_fn(x["ctx"])),
             "the ancestor test does not walk the ancestors of join(root, convert(filename))", x["loc"],
             sample={"ancestors of": "join(self.%s, convert(filename))" % (info["root_field"] if info else "?")})
    for hk, v in validators.items():
        ok = "contains" in v and "any" in v
        d.ob(ok, "validator-conjunction in %s" % short(frame_fn(hk)), "the validation of this handler lacks the %s test" % ("ancestor" if "contains" in v else "'..'"),
             sample={"handler": short(frame_fn(hk)), "tests": sorted(k for k in v if k in ("contains", "any"))})
    # ---------------------------------------------------------------- handlers: one per spawn kind
    spawns = [e for e in L.events if base_name(e) == "std::thread::spawn"]
    c.need(len(set(e.node for e in spawns)), 2, "worker spawns on the listener")
    news = [e for e in L.events if e.inlined and base_name(e).endswith("worker::Worker::new")]
    fs = L.fs_events("listener")
    a.need(len(set(e.node for e in fs)), 3, "filesystem calls on the listener (exists, metadata)")
    kinds = {}
    for sp in spawns:
        clos_t = sp.args[0]
        cd = clos_t[1].get(("$closure",)) if isinstance(clos_t, tuple) and clos_t[0] == "agg" else None
        cdef = cd[1][1] if cd is not None else ""
        parent = prog.bodies[cdef].parent if cdef in prog.bodies else ""
        kind = "send" if parent.endswith("::send") else ("receive" if parent.endswith("::receive") else "?")
        want_root = "send_directory" if kind == "send" else "receive_directory"
        kinds.setdefault(kind, []).append(sp)
        # environment of the spawned closure: every PathBuf it captures is the validated path of this handler
        env = clos_t[1] if isinstance(clos_t, tuple) and clos_t[0] == "agg" else {}
        paths = [(k, v) for k, v in env.items() if isinstance(v, tuple) and v and v[0] == "t" and term_contains(v, is_app("std::path::Path::join"))]
        a.ob(len(paths) >= 1, "worker-path-provenance %s" % kind, "the %s worker's file path is not join(root, convert(filename))" % kind, sp.loc)
        for k, v in paths:
            info = path_term_info(L, v)
            okp = info is not None and info["root_field"] == want_root and info["relative"]
            b.ob(okp, "worker-root %s" % kind, "the %s worker's path is joined to %s instead of %s" % (kind, info["root_field"] if info else "?", want_root), sp.loc,
                 sample={"worker": kind, "path": "join(self.%s, convert(filename))" % (info["root_field"] if info else "?")})
        # root compared inside the validator of this handler
        handler_validators = [v for fid, v in validators.items() if fid[:2] == sp.ctx[:2] and "any" in v and "contains" in v]
        c.ob(len(handler_validators) >= 1, "no-validator-on-path %s" % kind, "no path validation in the handler that spawns the %s worker" % kind, sp.loc)
        for v in handler_validators:
            b.ob(any(L.field_ref(r_, want_root) for r_ in v.get("root_refs", [])), "validator-root %s" % kind,
                 "the ancestor test of the %s handler compares with another directory than %s" % (kind, want_root),
                 v["any"]["loc"], sample={"ancestor == ": "self." + want_root})
    a.ob(set(kinds) >= {"send", "receive"}, "both-handlers", "spawn of send and receive workers not both found: %s" % sorted(kinds), nontrivial=False)
    # ---------------------------------------------------------------- c gate (ghost monitor 'validated')
    gv = [o for o in eng.obligations.values() if o.kind == "ghost:validated"]
    c.need(len(gv), 10, "effects on the listener monitored for prior validation")
    for o in gv:
        c.ob(o.proven, "effect-before-validation %s in %s" % (o.detail.split(" ")[0], short(o.body)), o.residual, o.loc,
             sample={"effect": o.detail.split(" ")[0], "in": short(o.body), "validated on every path": o.proven})
    # rejection is answered with ERROR AccessViolation: at the listen loop's back edge, validation failed => reply == AccessViolation
    av = None
    for i, vv in enumerate(prog.adts[ERRORCODE]["variants"]):
        if vv["name"] == "AccessViolation":
            av = prog.variant_discr(ERRORCODE, i)
    backs = eng.loop_backs.get(L.head, []) if L.head else []
    rejected = 0
    for s_ in backs:
        d_ = s_.store.get(("G",), {})
        vc, va, rp = d_.get(("v_contains",)), d_.get(("v_any",)), d_.get(("reply",))
        failed = (vc is not None and vc[0] == "i" and s_.ctx.entails(lin.le(lin.const(1), vc[1]))) or \
                 (va is not None and va[0] == "i" and s_.ctx.entails_eq(va[1], lin.const(0)))
        if failed:
            rejected += 1
            okr = rp is not None and rp[0] == "i" and av is not None and s_.ctx.entails_eq(rp[1], lin.const(100 + av))
            c.ob(okr, "rejection-without-error-2", "a request whose path failed validation is not answered with ERROR AccessViolation (last reply code: %s)"
                 % (lin.show(rp[1]) if rp is not None and rp[0] == "i" else "none"), sample={"validation failed": True, "reply": "ERROR 2"})
    c.need(rejected, 2, "loop iterations ending with a failed validation (RRQ and WRQ, '..' and ancestor test)")
    # listener fs events use the validated path with the right root
    for e in fs:
        snap = arg_pointee(e, 0)
        info = path_term_info(L, e.args[0] if e.args else None, snap)
        kind = None
        for k, sps in kinds.items():
            if any(sp.ctx[:2] == e.ctx[:2] for sp in sps):
                kind = k
        want = "send_directory" if kind == "send" else "receive_directory"
        okp = info is not None and info["relative"] and info["root_field"] == want
        a.ob(okp, "fs-call-on-unvalidated-path %s in %s" % (base_name(e), short(e.body)),
             "%s in %s does not operate on join(self.%s, convert(filename))" % (base_name(e), short(e.body), want), e.loc,
             sample={"fs call": base_name(e), "path": "join(self.%s, convert(filename))" % (info["root_field"] if info else "?")})
    # worker-side fs events: path = captured PathBuf of the closure environment (validated above by substitution)
    allowed = {"send": {"std::fs::File::open"}, "receive": {"std::fs::File::create", "std::fs::remove_file"}}
    for kind in ("send", "receive"):
        R = region_for(world, eng, "::" + kind)
        if R is None:
            a.fail("anchor-lost %s-closure" % kind, "closure not found")
            continue
        wfs = [e for e in L.fs_events(R.name)]
        a.need(len(set(e.node for e in wfs)), 1, "filesystem calls in the %s worker" % kind)
        for e in wfs:
            n = base_name(e)
            a.ob(n in allowed[kind], "unexpected-fs-api %s in %s worker" % (n, kind), "the %s worker calls %s" % (kind, n), e.loc)
            v = e.args[0] if e.args else None
            snap = arg_pointee(e, 0)
            t = snap.get(()) if snap else None
            okp = isinstance(t, tuple) and t[0] == "t" and isinstance(t[1], tuple) and t[1][0] == "env"
            a.ob(okp, "worker-fs-path %s %s" % (kind, n), "%s in the %s worker does not use a path captured from the handler" % (n, kind), e.loc,
                 sample={"worker": kind, "fs call": n, "path": "captured environment value"})
    for e in fs:
        n = base_name(e)
        a.ob(n in ("std::path::Path::exists", "std::path::Path::metadata"), "unexpected-fs-api %s on listener" % n, "the listener calls %s" % n, e.loc)
    # ---------------------------------------------------------------- e relative name
    trims = [e for e in L.events if base_name(e) == "core::str::<impl str>::trim_start_matches"]
    e_.need(len(set(e.node for e in trims)), 2, "trim of leading separators (one per handler)")
    done = set()
    for e in trims:
        clos = e.args[1] if len(e.args) > 1 else None
        cd = clos[1].get(("$closure",)) if isinstance(clos, tuple) and clos[0] == "agg" else None
        cdef = cd[1][1] if cd is not None else None
        if cdef is None and isinstance(clos, tuple) and clos and clos[0] == "fn" and len(clos) > 1 and clos[1] in prog.bodies:
            cdef = clos[1]      # a named predicate function instead of a closure
        if cdef is None:
            # a constant pattern: a char or an array / slice of chars
            cr = const_reprs(prog, clos) + ([repr(clos)] if isinstance(clos, tuple) and clos and clos[0] == "i" else [])
            chars = set()
            for r_ in cr:
                chars |= set(re.findall(r"'(\\\\|/|.)'", r_))
            if isinstance(clos, tuple) and clos and clos[0] == "agg":
                for vv in clos[1].values():
                    if isinstance(vv, tuple) and vv and vv[0] == "i" and not vv[1][1]:
                        chars.add(chr(vv[1][0]))
            if chars:
                norm = set("\\" if c_ in ("\\\\", "\\") else c_ for c_ in chars)
                e_.ob({"/", "\\"} <= norm, "trim-both-separators", "leading '/' and '\\\\' are not both trimmed from the request filename (trimmed: %s)" % sorted(norm), e.loc,
                      sample={"trimmed characters": sorted(norm)})
                continue
            pat = clos
            e_.ob(False, "trim-pattern", "leading separators are trimmed with an unrecognised pattern %r" % (repr(pat)[:40],), e.loc)
            continue
        if cdef in done:
            continue
        done.add(cdef)
        consts = set(c for c in (47, 92) if predicate_accepts(world, cdef, c))
        e_.ob({47, 92} <= consts, "trim-both-separators", "leading '/' and '\\\\' are not both trimmed from the request filename (trimmed: %s)" % sorted(chr(x) for x in consts), e.loc,
              sample={"trimmed characters": sorted(chr(x) for x in consts)})
        s0 = e.args[0]
    # "the configured directories": -rd / -sd are what Config says, whatever the flag order (shared with C17.a / C17.d)
    from . import C17
    x3 = rep.clause("C03.f", "the roots are the configured receive / send directories (shared with C17)")
    import_clause(world, tier, x3, C17, "C17.a/server", ("directory", "-d", "-rd", "-sd"), "directory flags")
    import_clause(world, tier, x3, C17, "C17.d", ("",), "fallback to -d exactly when not given")
    return rep
