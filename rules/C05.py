"""C05 - Listener availability: no datagram (sequence) terminates or wedges the listener."""
from analyzer import lin
from analyzer.stdmodel import ALLOC_MAX
from .common import *

SERVER = "tftpd::server::Server"
LISTEN = "tftpd::server::Server::listen"

BLOCKING_PREFIX = ("std::thread::JoinHandle::join", "std::thread::sleep", "std::thread::park", "std::sync::mpsc::Receiver::recv",
                   "std::sync::mpsc::Receiver::iter", "std::sync::Condvar::wait", "std::sync::Barrier::wait",
                   "std::net::UdpSocket::recv", "std::net::UdpSocket::peek", "tftpd::socket::Socket::recv",
                   "std::io::Stdin::", "std::process::Child::wait", "std::net::TcpListener::accept",
                   "std::sync::mpsc::SyncSender::send", "std::thread::scope")
EXIT_NAMES = ("std::process::exit", "std::process::abort")
PURE_IN_CRITICAL_SECTION = {
    "std::sync::Mutex::lock", "<std::sync::MutexGuard<'_, T> as std::ops::Deref>::deref",
    "<std::sync::MutexGuard<'_, T> as std::ops::DerefMut>::deref_mut",
    "<std::sync::mpsc::Sender<T> as std::clone::Clone>::clone", "std::result::Result::unwrap",
}


def check(world, tier):
    prog = world.lib
    rep = Report("C05")
    rep.level = "proof"
    rep.trusted_base = ["rustc nightly MIR", "curated std models and panic classification (analyzer/stdmodel.py)",
                        "Fourier-Motzkin entailment", "Houdini loop invariants", "lemmas L-MAP, L-LOCK, L-CONN checked structurally"]
    rep.assumptions = ["A-UTF8: served directories are valid UTF-8 (Path::to_str().unwrap() in the validator)",
                       "A-STDIO: println!/eprintln! do not fail", "A-RES: thread creation and bounded (<= 16 MiB) allocations succeed",
                       "A-CONFIG: Server is built from a Config produced by Config::new (duplicate_packets <= 254, proved in C16)",
                       "Server type invariant 512 <= largest_block_size <= 65464 assumed at listen() entry and proved here for Server::new and the listen loop"]
    rep.explanation = ("Abstract interpretation of Server::listen with every crate-local callee inlined (decoder, both request handlers, "
                       "routing, reply helpers, Worker::new/send/receive up to the thread spawn) for ALL datagrams and ALL option values: "
                       "every panic obligation on the listener thread is discharged by the interpreter or by a structurally checked lemma; "
                       "every allocation sized from a datagram is bounded in the listener and in both worker threads; listen() has no return "
                       "state and no exit call; the only blocking event on the listener is the loop-head receive. "
                       "NOT decided: resource exhaustion by sheer request volume.")
    if LISTEN not in prog.bodies:
        c = rep.clause("C05.anchor", "anchor Server::listen")
        c.fail("anchor-lost Server::listen", "public anchor not found")
        return rep
    eng = world.run("listen")
    g = graph_of(eng)
    lay = world.server_layout()
    fi = {n: (tuple(lay[n]) if lay.get(n) is not None else None) for n in ("socket", "single_port", "largest_block_size", "clients", "duplicate_packets")}
    self_root = ("P", ("L", eng.entry_frame, 1), ())
    rep.analysed = {"entry": LISTEN, "supergraph_nodes": len(eng.nodes), "call_events": len(eng.events),
                    "regions": sorted(set(e.region for e in eng.events)), "thread_entries": list(eng.thread_entries.keys())}

    # ---------------------------------------------------------------- C05.a
    a = rep.clause("C05.a", "no panic on the listener thread for any datagram / option value")
    obs = obligations(eng, region="listener")
    a.need(len(obs), 60, "panic obligations on the listener thread")
    for o in obs:
        key = ob_key(o)
        if o.proven:
            a.ob(True, key, "", nontrivial=True,
                 sample={"obligation": o.kind + " " + o.detail, "in": short(o.body), "at": o.loc, "how": "interpreter"})
            continue
        lemma = None
        why = ""
        v = o.value
        head = v[1][1] if isinstance(v, tuple) and v and v[0] == "t" and isinstance(v[1], tuple) and v[1][0] == "app" else None
        if o.kind == "map-index":
            lemma, why = lemma_map(eng, g, o)
        elif o.kind == "unwrap" and head == "std::sync::Mutex::lock":
            lemma, why = lemma_lock(world, eng, o, v)
        elif o.kind == "unwrap" and head == "tftpd::socket::Socket::remote_addr":
            lemma, why = lemma_conn(world, eng, o, self_root, fi)
        elif o.kind == "unwrap" and head == "std::path::Path::to_str":
            # A-UTF8: the path is join(<served directory>, <String from the request>): the String part is UTF-8 by type, the
            # served directory by assumption
            joined = term_contains(v, is_app("std::path::Path::join")) if v is not None else False
            lemma, why = ("A-UTF8" if joined else None, "to_str().unwrap() on a path that is not join(<served directory>, <request string>)")
        a.ob(lemma is not None, key, "cannot discharge %s in %s on the listener thread: %s %s" % (o.detail, short(o.body), o.residual, why),
             o.loc, sample={"obligation": o.kind + " " + o.detail, "in": short(o.body), "at": o.loc, "how": lemma})
    std_callee_audit(a, eng, world, region="listener", what="the listener thread")
    for w in eng.warnings:
        if w[0] in ("loop-no-convergence", "unknown-terminator", "recursion-cut"):
            a.ob(False, "analysis-incomplete %s %s" % (w[0], short(str(w[1]))), "analysis incomplete: %r" % (w,))
    # indirect calls (function pointers) are not followed
    for e in events(eng, lambda e: e.kind == "indirect", region="listener"):
        a.ob(False, "indirect-call in %s" % short(e.body), "call through a function pointer on the listener thread is not analysed", e.loc)

    # ---------------------------------------------------------------- C05.b
    b = rep.clause("C05.b", "every allocation sized from a datagram is bounded (listener and workers)")
    allocs = [o for o in eng.obligations.values() if o.kind == "alloc"]
    b.need(len([o for o in allocs if o.region == "listener"]), 1, "sized allocations on the listener")
    b.need(len([o for o in allocs if o.region.startswith("thread:")]), 1, "sized allocations in the workers")
    for o in allocs:
        b.ob(o.proven, ob_key(o) + " " + o.region.split("::")[-2] if "::" in o.region else ob_key(o),
             "allocation of attacker-controlled size in %s (%s): %s" % (short(o.body), o.region, o.residual), o.loc,
             sample={"alloc": o.detail, "in": short(o.body), "region": o.region, "proven": o.proven})
    # receive buffers of the transfer sockets: size argument of Socket::recv_with_size in the workers is bounded,
    # and the UdpSocket implementation allocates size + 4
    recvs = events(eng, callee_is("tftpd::socket::Socket::recv_with_size"), region="thread:")
    b.need(len(recvs), 2, "Socket::recv_with_size events in the worker threads")
    # states are not kept per event: use the thread entry preconditions + provenance of the argument
    for e in recvs:
        v = e.args[1] if len(e.args) > 1 else None
        ok = False
        if v is not None and v[0] == "i":
            c = const_of_lin(v[1])
            if c is not None:
                ok = c <= 65464
            else:
                ok = bounded_by_entry(eng, e, v[1], 65464)
        b.ob(ok, "recv-buffer-size in %s" % short(e.body), "receive buffer size passed to Socket::recv_with_size is not bounded by 65464", e.loc,
             sample={"recv_with_size size": lin.show(v[1]) if v is not None and v[0] == "i" else repr(v)[:80]})
    impl = "tftpd::<std::net::UdpSocket as socket::Socket>::recv_with_size"
    if impl in prog.bodies:
        e2 = world.run("sock:" + impl)
        for o in e2.obligations.values():
            b.ob(o.proven, "udp-recv " + ob_key(o), "in UdpSocket::recv_with_size (size <= 65464): %s" % o.residual, o.loc)
    else:
        b.fail("anchor-lost UdpSocket::recv_with_size", "impl Socket for UdpSocket :: recv_with_size not found")

    # ---------------------------------------------------------------- C05.c
    c = rep.clause("C05.c", "the listener never returns or exits the process")
    c.ob(len(eng.finals) == 0, "listen-returns", "Server::listen has a reachable return (%d return state(s))" % len(eng.finals),
         sample={"return states of listen": len(eng.finals)})
    n_exit = 0
    for e in eng.events:
        if base_name(e) in EXIT_NAMES and (e.region == "listener" or e.region.startswith("thread:")):
            n_exit += 1
            c.ob(False, "exit-call %s in %s" % (base_name(e), short(e.body)), "process exit reachable from the server (%s)" % e.region, e.loc)
    c.ob(n_exit == 0, "no-exit-call", "", nontrivial=False)
    c.ob((eng.entry_frame, 1) in eng.loop_invariants, "listen-loop", "Server::listen is no longer a loop at its top level",
         nontrivial=False) if False else None
    loops = [k for k in eng.loop_invariants if k[0] == eng.entry_frame]
    c.ob(len(loops) >= 1, "listen-loop", "Server::listen has no top-level loop")

    # ---------------------------------------------------------------- C05.d
    d = rep.clause("C05.d", "the loop-head receive is the only blocking event on the listener; its socket has no timeout set")
    blocking = [e for e in events(eng, region="listener") if not e.inlined and base_name(e).startswith(BLOCKING_PREFIX)]
    allowed = 0
    for e in blocking:
        n = base_name(e)
        # the one allowed blocking call is the receive on the listening socket itself (wherever the Socket impl puts it: the
        # method body, a helper or a closure handed to a helper)
        ok = (n == "std::net::UdpSocket::recv_from" and refers_to(e.args[0], self_root, (fi["socket"] or ())))
        if ok:
            allowed += 1
        d.ob(ok, "blocking-call %s in %s" % (n, short(e.body)),
             "blocking call %s on the listener thread (besides the receive on the listening socket)" % n, e.loc,
             sample={"blocking": n, "in": short(e.body), "allowed": ok})
    d.need(allowed, 1, "loop-head receive on the listening socket")
    for e in events(eng, callee_is("std::net::UdpSocket::set_read_timeout", "std::net::UdpSocket::set_nonblocking"), region="listener"):
        bad = refers_to(e.args[0], self_root, (fi["socket"] or ()))
        d.ob(not bad, "listening-socket-timeout in %s" % short(e.body), "read timeout / non-blocking mode set on the listening socket", e.loc)

    # ---------------------------------------------------------------- C05.e type invariant
    t = rep.clause("C05.e", "Server invariant 512 <= largest_block_size <= 65464: established by Server::new, kept by every writer")
    new = "tftpd::server::Server::new"
    if new in prog.bodies and fi["largest_block_size"] is not None:
        en = world.run("fn:" + new)
        oks = [s for s in en.finals if ret_discr(en, s) == 0]
        t.need(len(oks), 1, "Ok return states of Server::new")
        for s in oks:
            v = s.store.get(("L", en.entry_frame, 0), {}).get((("v", 0), 0) + fi["largest_block_size"])
            ok = v is not None and v[0] == "i" and s.ctx.entails(lin.le(lin.const(512), v[1])) and s.ctx.entails(lin.le(v[1], lin.const(65464)))
            t.ob(ok, "server-new-invariant", "Server::new does not establish 512 <= largest_block_size <= 65464",
                 sample={"Server::new largest_block_size": lin.show(v[1]) if v is not None and v[0] == "i" else repr(v)})
        writers = static_field_writes(prog, SERVER, fi["largest_block_size"])
        t.need(len(writers), 1, "writers of Server.largest_block_size")
        region_bodies = set(e.body for e in eng.events if e.region == "listener") | set([LISTEN])
        for (bp, bi, kind, loc) in writers:
            ok = bp == new or bp in region_bodies
            t.ob(ok, "writer-outside-analysis %s" % short(bp), "Server.largest_block_size is written in %s, which is not covered by the listen() analysis" % short(bp), loc,
                 sample={"writer": short(bp), "kind": kind})
        # the loop invariant found for listen's loop must contain the bounds (it is what C05.a relied on)
        hs = [v for k, v in eng.loop_heads.items() if k[0] == eng.entry_frame]
        for S in hs:
            v = eng.read(S, self_root, fi["largest_block_size"])
            ok = v[0] == "i" and S.ctx.entails(lin.le(lin.const(512), v[1])) and S.ctx.entails(lin.le(v[1], lin.const(65464)))
            t.ob(ok, "listen-loop-invariant", "512 <= largest_block_size <= 65464 is not an invariant of the listen loop "
                 "(a request can shrink the listener's receive buffer below a request's size, or grow it without bound)",
                 sample={"loop-head largest_block_size": lin.show(v[1]) if v[0] == "i" else repr(v)[:60]})
    else:
        t.fail("anchor-lost Server::new/largest_block_size", "Server::new or field largest_block_size not found")

    # ---------------------------------------------------------------- C05.f no silent drop
    f = rep.clause("C05.f", "no request is dropped silently: a loop iteration that decoded a RRQ/WRQ ends with a reply sent, a worker spawned, or a handler error")
    PACKET = "tftpd::packet::Packet"
    kinds = {i + 1: v["name"] for i, v in enumerate(prog.adts[PACKET]["variants"])}
    heads = sorted([k for k in eng.loop_backs if k[0] == eng.entry_frame], key=repr)
    n_req = 0
    for hk in heads:
        for s_ in eng.loop_backs[hk]:
            g_ = s_.store.get(("G",), {})
            kd = g_.get(("kind",))
            kn = kinds.get(kd[1][0]) if kd is not None and kd[0] == "i" and not kd[1][1] else None
            if kn not in ("Rrq", "Wrq"):
                continue
            n_req += 1

            def unchanged(name):
                v = g_.get((name,))
                ps = eng.sym_ids.get(("phi", hk[0], hk[1], ("G",), (name,)))
                return v is None or (v[0] == "i" and ps is not None and v[1] == (0, ((ps, 1),)))
            he = g_.get(("herr",))
            herr = he is not None and he[0] == "i" and s_.ctx.entails_eq(he[1], lin.const(1)) and not unchanged("herr")
            ok = (not unchanged("reply")) or (not unchanged("spawned")) or herr
            f.ob(ok, "request-dropped-silently %s" % kn,
                 "an iteration of the listen loop can receive a well-formed %s and go back to the receive without having sent a reply, started a transfer "
                 "or reported a handler error: such requests are never answered" % kn.upper(),
                 sample={"request": kn, "iteration ends with": "reply / spawn / handler error"})
    f.need(n_req, 4, "loop iterations that decoded a request")
    return rep


def const_of_lin(e):
    return e[0] if not e[1] else None


def bounded_by_entry(eng, ev, e, bound):
    """is lin expr e <= bound entailed by the thread-entry preconditions (and type ranges)?"""
    # rebuild a context holding only the thread entry preconditions
    from analyzer.lin import Ctx
    c = Ctx(eng.ranges)
    fid0 = ev.ctx[:1]
    st = None
    # thread entries were explored from a state whose ctx held the preconditions; they are re-derived
    # here from the recorded precondition strings' underlying constraints, kept on the engine
    pre = getattr(eng, "thread_pre", {}).get(fid0)
    if pre is not None:
        for q in pre:
            c.add(q)
    return c.entails(lin.le(e, lin.const(bound)))


def refers_to(v, root, path):
    """value v is a reference to (root, path) or to something inside it"""
    return isinstance(v, tuple) and v and v[0] == "r" and v[1] == root and tuple(v[2][:len(path)]) == tuple(path)


def lemma_map(eng, g, o):
    """L-MAP: HashMap index dominated by contains_key(true) on the same map and key, no map write in between"""
    node = (o.ctx, o.bb)
    idx = event_at(eng, node)
    if idx is None:
        return None, "index event not found"
    for e1 in eng.events:
        if e1.ctx != o.ctx or base_name(e1) != "std::collections::HashMap::contains_key":
            continue
        if e1.args[:2] != idx.args[:2]:
            continue
        te = bool_call_true_edges(eng, e1)
        if te is None:
            continue
        entry = (o.ctx, 0)
        if not g.dominated_by_edges(entry, node, te["true"]):
            continue
        # no map mutation between the test and the use
        between = g.reachable([e1.node]) & set(n for n in g.pred if node in g.reachable([n], stop_at=[node])) if False else None
        after = g.reachable([e1.node], stop_at=[node])
        bad = [e for e in eng.events if e.ctx == o.ctx and e.node in after and e.node != node and
               base_name(e).startswith("std::collections::HashMap::") and base_name(e).rsplit("::", 1)[-1] in
               ("insert", "remove", "clear", "retain", "drain", "entry", "get_mut", "remove_entry")]
        if bad:
            return None, "map is modified between contains_key and the index"
        return "L-MAP", ""
    return None, "no dominating contains_key(true) on the same map and key"


def lemma_lock(world, eng, o, v):
    """L-LOCK: the mutex cannot be poisoned: every critical section on the same field only runs code that cannot panic"""
    prog = world.lib
    ev = None
    for e in eng.events:
        if e.ctx == o.ctx and base_name(e) == "std::sync::Mutex::lock":
            ev = e
    if ev is None:
        return None, "lock event not found"
    a0 = ev.args[0]
    if not (isinstance(a0, tuple) and a0[0] == "r" and a0[2]):
        return None, "cannot identify the mutex"
    field = a0[2][-1]
    # every body of the crate that locks a Mutex stored in this field index of the same struct
    owner_ty = None
    body = prog.bodies[ev.body]
    holders = []
    for bp, b in prog.bodies.items():
        for bi, blk in enumerate(b.blocks):
            t = blk["term"]
            if t["k"] != "call":
                continue
            fn = t["fn"]
            nm = strip_generics(fn.get("resolved") or fn.get("def", ""))
            if nm != "std::sync::Mutex::lock":
                continue
            # which field? look for `_x = &((*_1).f)` feeding the argument in this block
            arg = t["args"][0]
            pl = arg.get("move") or arg.get("copy")
            fld = None
            if pl is not None:
                for st in blk["stmts"]:
                    if st["k"] == "assign" and st["place"]["l"] == pl["l"] and st["rv"]["k"] == "ref":
                        for pr in st["rv"]["place"]["p"]:
                            if isinstance(pr, dict) and "f" in pr:
                                fld = pr["f"]
            holders.append((bp, fld))
    same = [bp for bp, fld in holders if fld == field]
    if not same:
        return None, "no critical section found statically"
    for bp in same:
        b = prog.bodies[bp]
        for blk in b.blocks:
            t = blk["term"]
            if t["k"] == "call":
                fn = t["fn"]
                nm = strip_generics(fn.get("resolved") or fn.get("def", ""))
                if nm not in PURE_IN_CRITICAL_SECTION:
                    return None, "critical section in %s calls %s, which is not known to be panic-free" % (short(bp), nm)
            elif t["k"] == "assert":
                return None, "critical section in %s contains an assert" % short(bp)
    return "L-LOCK", ""


def lemma_conn(world, eng, o, self_root, fi):
    """L-CONN: remote_addr() on the transfer socket cannot fail: it is either the channel-backed socket
    (whose remote_addr has no Err return) or a UdpSocket whose connect() succeeded on this path"""
    prog = world.lib
    # ServerSocket::remote_addr has no Err return
    impl = "tftpd::<socket::ServerSocket as socket::Socket>::remote_addr"
    if impl not in prog.bodies:
        return None, "ServerSocket::remote_addr not found"
    e2 = world.run("fn:" + impl)
    if any(ret_discr(e2, s) != 0 for s in e2.finals) or not e2.finals:
        return None, "ServerSocket::remote_addr can return Err"
    connects = [e for e in eng.events if base_name(e) == "std::net::UdpSocket::connect" and e.region == "listener"]
    sp = eng.sym_ids.get(("init", self_root, (fi["single_port"] or ())))
    for ctx in o.states:
        ok = False
        if sp is not None and ctx.infeasible_with([lin.le(lin.var(sp), lin.const(0)), lin.le(lin.const(0), lin.var(sp))]):
            ok = True  # single-port mode on this path: channel-backed socket
        else:
            for ce in connects:
                fc = failure_condition(eng, ce)
                if fc is not None and ctx.entails_eq(lin.var(fc[0]), lin.const(0)):
                    ok = True
                    break
        if not ok:
            return None, "a path reaches remote_addr().unwrap() with a socket that is neither channel-backed nor connected"
    if not o.states:
        return None, "no state recorded"
    return "L-CONN", ""
