"""C07 - Termination: transfers end at the final block, on ERROR, or after bounded retry."""
from analyzer import lin
from .common import *
from .workers import *


def counter_analysis(R, clause, fid, h, tag):
    """C07.a for the innermost loop (fid,h) that contains the socket receive"""
    eng = R.eng
    g = R.g
    loopn = R.loop_nodes(fid, h)
    head = (fid, h)
    allnodes = set(g.succ.keys())
    outside = allnodes - loopn
    oe = R.recv_outcome_edges()
    err_edges = [e for e in oe.get("err", ()) if e[0] in loopn]
    clause.need(len(err_edges), 1, "receive-failed edge in the %s loop" % tag)
    # counters: int locals of the transfer frame, modified in the loop, written with  old + 1
    M = eng.loop_cache.get((fid, h), {}).get("M", set())
    cands = []
    for (root, path) in M:
        if root[0] != "L" or root[1] != fid or path != ():
            continue
        ps = eng.sym_ids.get(("phi", fid, h, root, ()))
        if ps is None:
            continue
        incs = set()
        other = set()
        steps = set()
        for (node, wr, wp, v) in eng.writes_log:
            if wr != root or wp != () or node not in loopn:
                continue
            if isinstance(v, tuple) and v and v[0] == "i" and v[1][1] == ((ps, 1),) and v[1][0] != 0:
                incs.add(node)          # counting up (retry_cnt += 1) or down (retries_left -= 1)
                steps.add(v[1][0])
            elif isinstance(v, tuple) and v and v[0] == "i" and v[1] == (0, ((ps, 1),)):
                pass  # copy of itself
            else:
                other.add(node)
        if incs and len(steps) == 1:
            cands.append((root, ps, incs, other, steps.pop()))
    ok_any = False
    why = "no counter incremented on the receive-failed path"
    for (root, ps, incs, other, step) in cands:
        # (i) every cycle from a receive-failed edge back to the loop head passes an increment
        bad = [e for e in err_edges if head in g.reachable([e[1]], avoid_nodes=incs | outside)]
        if bad:
            why = "a path from the receive-failed edge back to the receive avoids the increment of the retry counter"
            continue
        if other:
            why = "the retry counter has another write inside the loop (it can be reset while the peer is silent)"
            continue
        # (iii) after the increment: test counter == M; true edge ends the transfer with Err
        tests = []
        for edge, conds in eng.edge_conds.items():
            if edge[0] not in loopn:
                continue
            for c in conds:
                if c[0] == "bool" and c[1][0] == "cmp":
                    a, b = c[1][2], c[1][3]
                    ss = set(s for s, _ in a[1]) | set(s for s, _ in b[1])
                    if ps in ss and (not a[1] or not b[1]):
                        op = c[1][1]
                        if not a[1]:        # bound OP counter: read it as counter OP' bound
                            op = {"Lt": "Gt", "Gt": "Lt", "Le": "Ge", "Ge": "Le"}.get(op, op)
                        truth = c[2]
                        const = a[0] if not a[1] else b[0]
                        other_side = b if not a[1] else a
                        limit = const - other_side[0]   # counter_head + k  OP const  ->  counter_head OP const-k
                        tests.append((edge, op, truth, limit + other_side[0]))
        # the edges on which the bound is known to be reached: counter ==/>=/> bound when counting up, ==/<=/< when counting down
        hit = ("Eq", "Ge", "Gt") if step > 0 else ("Eq", "Le", "Lt")
        miss = ("Ne", "Lt", "Le") if step > 0 else ("Ne", "Gt", "Ge")
        if abs(step) != 1:
            hit, miss = hit[1:], miss[1:]       # an equality test can be stepped over
        stop_edges = [t[0] for t in tests if (t[1] in hit and t[2]) or (t[1] in miss and not t[2])]
        go_edges = [t[0] for t in tests if t[0] not in stop_edges]
        if not stop_edges:
            why = "no test of the retry counter against a bound inside the loop"
            continue
        # every path from an increment back to the head takes a continue-edge of the test
        bad2 = [n for n in incs if head in g.reachable([n], avoid_edges=go_edges, avoid_nodes=outside)]
        if bad2:
            why = "after incrementing the retry counter the loop can continue without testing it"
            continue
        tf = R.transfer_frame()
        errret = set(R.ret_nodes(tf, 1))
        okret = set(R.ret_nodes(tf, 0))
        recvs = set(R.recv_nodes())
        sends = set(R.send_nodes())
        bad3 = []
        for e in stop_edges:
            r = g.reachable([e[1]], stop_at=errret)
            if (r & recvs) or (r & sends) or (r & okret) or head in r or not (r & errret):
                bad3.append(e)
        if bad3:
            why = "reaching the retry bound does not end the transfer with an error at once"
            continue
        # (ii') entry value: constant below the bound
        bound = max(t[3] for t in tests) if step > 0 else min(t[3] for t in tests)
        inits = [v for (node, wr, wp, v) in eng.writes_log if wr == root and wp == () and node not in loopn]
        init_ok = inits and all(v[0] == "i" and not v[1][1] and (v[1][0] < bound if step > 0 else v[1][0] > bound) for v in inits)
        if not init_ok:
            why = "the retry counter is not initialised to a constant on the near side of the bound before the loop"
            continue
        # how many consecutive failed receives it takes to reach the bound from the initial value
        far = max(v[1][0] for v in inits) if step > 0 else min(v[1][0] for v in inits)
        budget = abs(bound - far) // abs(step)
        ok_any = {"root": root, "sym": ps, "incs": incs, "bound": bound, "budget": budget, "stop_edges": stop_edges, "go_edges": go_edges}
        clause.samples.append({"loop": tag, "counter": short_place(root), "bound": bound, "increments": len(incs),
                               "receive-failed edges": len(err_edges)})
        break
    clause.ob(bool(ok_any), "bounded-retry %s" % tag, "%s loop: %s" % (tag, why))
    return ok_any


def short_place(root):
    from analyzer.engine import short_root
    return short_root(root)


def check(world, tier):
    prog = world.lib
    rep = Report("C07")
    rep.level = "other"
    rep.trusted_base = ["rustc nightly MIR", "explored inlined supergraph of both worker closures", "ghost typestate monitors (analyzer/monitors.py)"]
    rep.assumptions = ["A-READ: File::read returns a short count only at end of file",
                       "receive time-outs are delivered as Err results of Socket::recv* (checked for both Socket impls in C07.a-iv)"]
    rep.explanation = ("Decides, on the MIR of both worker closures (all peers, all fault sequences at once): (a) a ranking argument for the retry loops - "
                       "every receive-failed cycle increments a counter that is tested against a constant bound whose true edge returns Err with no further "
                       "socket event; receives are time-bounded; (b) a peer ERROR reaches return-Err without send/receive, and the OACK reply is accepted "
                       "only if it is ACK 0; (c) typestate: nothing is queued after the short (final) chunk [ghost eof]; (d) the sender returns Ok only behind "
                       "the queue-empty test, the receiver never receives again after accepting a short block [ghost final], and nothing is sent after the "
                       "transfer function returns. NOT decided: wall-clock bounds.")
    eng = world.run("listen")
    rep.analysed = {"regions": thread_regions(eng), "nodes": len(eng.nodes), "events": len(eng.events)}
    S = region_for(world, eng, "::send")
    Rv = region_for(world, eng, "::receive")
    a = rep.clause("C07.a", "bounded retry: receive-failed cycles increment a counter tested against a constant bound; receives time out")
    b = rep.clause("C07.b", "a peer ERROR ends the transfer at once; the OACK reply is accepted only if it is ACK 0")
    c = rep.clause("C07.c", "nothing is queued or sent beyond the file's final (short) block")
    d = rep.clause("C07.d", "ends when done, then silence")
    if S is None or Rv is None:
        a.fail("anchor-lost worker-closures", "closures spawned by Worker::send / Worker::receive not found in the explored graph")
        return rep
    for (R, tag) in ((S, "send"), (Rv, "receive")):
        g = R.g
        lps = R.transfer_loops()
        if not a.need(len(lps), 1, "loop containing the socket receive (%s)" % tag):
            continue
        fid, h = lps[0]
        counter_analysis(R, a, fid, h, tag)
        tf = R.transfer_frame()
        errret = set(R.ret_nodes(tf, 1))
        okret = set(R.ret_nodes(tf, 0))
        recvs = set(R.recv_nodes())
        sends = set(R.send_nodes())
        heads = set((f, hh) for f, hh in lps)
        oe = R.recv_outcome_edges()
        # ---- C07.b ERROR edge
        err_pkt = [e for e in oe.get(("pkt", "Error"), ())]
        b.need(len(err_pkt), 1, "peer-ERROR edge (%s)" % tag)
        for e in err_pkt:
            r = g.reachable([e[1]], stop_at=errret)
            # restrict to the frame that owns the edge and its callees
            owner = e[0][0]
            own_err = set(R.ret_nodes(owner, 1))
            own_ok = set(R.ret_nodes(owner, 0))
            r = g.reachable([e[1]], stop_at=own_err)
            bad = []
            if r & recvs:
                bad.append("receives again")
            if r & sends:
                bad.append("sends a datagram")
            if r & own_ok:
                bad.append("can return Ok")
            if any(hd in r for hd in heads):
                bad.append("re-enters the transfer loop")
            if not (r & own_err):
                bad.append("does not reach an Err return")
            b.ob(not bad, "peer-error-stops %s in %s" % (tag, short(frame_fn(owner))),
                 "after a peer ERROR the %s worker %s" % (tag, ", ".join(bad)),
                 sample={"region": tag, "edge": node_str(prog, e[0]) + "->" + node_str(prog, e[1]), "reaches": "Err return only" if not bad else bad})
    # ---- C07.b OACK reply (the receive outside every loop in the send region)
    loop_nodes_all = set()
    for (f, hh) in S.transfer_loops():
        loop_nodes_all |= S.loop_nodes(f, hh)
    solo = [n for n in S.recv_nodes() if n not in loop_nodes_all]
    b.need(len(solo), 1, "reply-to-OACK receive in the send region")
    for n in solo:
        # the frame that consumes the reply: the innermost frame (walking up) that has Ok and Err returns
        evs = [e for e in S.by_node[n] if not e.inlined]
        owner = n[0]
        while len(owner) > 1 and not S.ret_nodes(owner, 0):
            owner = owner[:-1]
        own_ok = set(S.ret_nodes(owner, 0))
        own_err = set(S.ret_nodes(owner, 1))
        b.need(len(own_ok), 1, "Ok return of the OACK-reply check")
        ack_edges = set()
        zero_edges = set()
        for ev in evs:
            ps = S.result_discr_sym(ev, (("v", 0), 0))
            if ps is not None:
                for edge, cnd in S.edges_on_symbol(ps):
                    if cnd[0] == "eq" and variant_name(prog, PACKET, cnd[2]) == "Ack":
                        ack_edges.add(edge)
            # the ACK's block number
            r = ev.ret
            if isinstance(r, tuple) and r and r[0] == "t":
                for nm, sid in list(S.eng.sym_ids.items()):
                    if isinstance(nm, tuple) and nm and nm[0] == "proj" and nm[1] == r[1]:
                        for edge, cnd in S.edges_on_symbol(sid):
                            if cnd[0] == "eq" and cnd[2] == 0:
                                zero_edges.add(edge)
                            elif cnd[0] == "bool" and cnd[1][0] == "cmp":
                                op, aa, bb_ = cnd[1][1], cnd[1][2], cnd[1][3]
                                const0 = (not aa[1] and aa[0] == 0) or (not bb_[1] and bb_[0] == 0)
                                if const0 and ((op == "Eq" and cnd[2]) or (op == "Ne" and not cnd[2])):
                                    zero_edges.add(edge)
        # what must be guarded by "the reply is ACK 0": the Ok return of a dedicated check function, or - when the check is
        # written inline in the transfer function - the data phase (first DATA transmission / entry of the transfer loops)
        tfS_ = S.transfer_frame()
        if owner == tfS_ or len(owner) < len(tfS_ or ()):
            targets = set(S.send_nodes(variants=("Data",))) | set((f, hh) for f, hh in S.transfer_loops())
            what = "the data phase starts"
        else:
            targets = set(own_ok)
            what = "the OACK-reply check returns Ok"
        b.need(len(targets), 1, "continuation guarded by the OACK-reply check")
        for okn in sorted(targets, key=repr):
            r_ack = S.g.reachable(list(S.g.succ.get(n, ())), avoid_edges=ack_edges)
            r_zero = S.g.reachable(list(S.g.succ.get(n, ())), avoid_edges=zero_edges)
            b.ob(bool(ack_edges) and okn not in r_ack, "oack-reply-must-be-ack",
                 "%s although the reply to the OACK is not an ACK (e.g. an ERROR from the peer is ignored)" % what,
                 sample={"guarded": node_str(prog, okn), "dominated by": "reply is Ack"})
            b.ob(bool(zero_edges) and okn not in r_zero, "oack-reply-must-be-ack0",
                 "%s although the acknowledged block number is not 0" % what,
                 sample={"guarded": node_str(prog, okn), "dominated by": "block number == 0"})
        # nothing is sent between the reply and its classification as a peer ERROR
        for ev in evs:
            ps = S.result_discr_sym(ev, (("v", 0), 0))
            if ps is None:
                continue
            err_srcs = set(edge[0] for edge, cnd in S.edges_on_symbol(ps) if cnd[0] == "eq" and variant_name(prog, PACKET, cnd[2]) == "Error")
            reach = S.g.reachable([n], stop_at=err_srcs | own_ok | own_err)
            early = [s_ for s_ in S.send_nodes() if s_ in reach and (S.g.reachable([s_], stop_at=err_srcs) & err_srcs)]
            b.ob(not early, "send-before-classifying-reply", "a datagram is sent before the reply to the OACK has been classified: a peer ERROR is answered",
                 sample={"sends between reply and classification": len(early)})
        # after an ERROR has been sent to the peer, the check cannot succeed
        for s_ in S.send_nodes(variants=("Error",)):
            if s_[0][:len(owner)] == owner:
                r = S.g.reachable([s_], stop_at=own_err)
                b.ob(not (r & own_ok), "continues-after-sending-error", "the transfer continues after the worker itself sent an ERROR", )

    # a peer's ERROR is recognised as such even when its message is missing or unterminated (otherwise it is counted as a failed
    # receive and the transfer goes on until the retry bound)
    from . import C11
    import_clause(world, tier, b, C11, "C11.c", ("minimal-error",), "peer ERROR recognised by opcode and code")
    # ---- C07.c typestate (ghost eof) + final block of the receiver (ghost final)
    g_eof = [o for o in eng.obligations.values() if o.kind == "ghost:eof" and o.region == S.name]
    c.need(len(g_eof), 1, "queue pushes in the send region (monitor eof)")
    for o in g_eof:
        c.ob(o.proven, "push-after-final-chunk in %s" % short(o.body),
             "the sender can queue (and later number and transmit) a chunk after the short final chunk: %s" % o.residual, o.loc,
             sample={"monitor": "eof", "push at": o.loc, "proven": o.proven})
    # ---- C07.d
    # send: Ok return only behind the queue-empty test
    tfS = S.transfer_frame()
    okS = S.ret_nodes(tfS, 0)
    d.need(len(okS), 1, "Ok return of the send transfer function")
    empties = [e for e in S.events if base_name(e) in ("std::collections::VecDeque::is_empty", "std::collections::VecDeque::len")
               and (e.ctx[:len(tfS)] == tfS)]
    true_edges = set()
    for e in empties:
        if base_name(e).endswith("is_empty"):
            te = bool_call_true_edges(eng, e)
            # the bool is returned through Window::is_empty: follow to the caller's switch
            cur = e
            if te is None:
                # result returned to the caller: find the switch in the caller on the inlined call's destination
                fid_c = e.ctx[:-1]
                site = e.ctx[-1]
                if isinstance(site, tuple) and site[0] == "call":
                    call_ev = None
                    for x in S.by_node.get((fid_c, site[3]), []):
                        if x.inlined:
                            call_ev = x
                    if call_ev is not None:
                        te = bool_call_true_edges(eng, call_ev)
            if te is not None:
                true_edges |= set(te["true"])
    for okn in okS:
        d.ob(bool(true_edges) and S.g.dominated_by_edges((tfS, 0), okn, true_edges), "send-ends-only-when-window-empty",
             "the sender can report success while unacknowledged blocks are still in the window",
             sample={"Ok return": node_str(prog, okn), "dominated by": "window.is_empty() == true"})
    # after the loops: no socket event before returning
    for (R, tag) in ((S, "send"), (Rv, "receive")):
        tf = R.transfer_frame()
        lps = R.transfer_loops()
        outer = lps[-1]
        ln = R.loop_nodes(*outer)
        okn = set(R.ret_nodes(tf, 0))
        # nodes after the loop on the way to Ok
        exits = set()
        for n in ln:
            for m in R.g.succ.get(n, ()):
                if m not in ln:
                    exits.add(m)
        post = R.g.reachable(exits, stop_at=okn | set(R.ret_nodes(tf, 1)), avoid_nodes=ln)
        bad = (post & set(R.recv_nodes())) | (post & set(R.send_nodes()))
        d.ob(not bad, "socket-event-after-loop %s" % tag, "the %s worker sends or receives after leaving its transfer loop" % tag,
             sample={"region": tag, "nodes after loop": len(post), "socket events": len(bad)})
        # after the transfer function returned: silence
        after = R.g.reachable([(tf, "ret")])
        bad2 = [n for n in after if n[0][:len(tf)] != tf and (n in set(R.recv_nodes()) or n in set(R.send_nodes()))]
        d.ob(not bad2, "socket-event-after-transfer %s" % tag, "the %s worker closure uses the socket after the transfer function has returned" % tag)
    g_final = [o for o in eng.obligations.values() if o.kind == "ghost:final" and o.region == Rv.name]
    d.need(len(g_final), 1, "receives in the receive region (monitor final)")
    for o in g_final:
        d.ob(o.proven, "receive-after-final-block in %s" % short(o.body),
             "the receiver can wait for another datagram after accepting a block shorter than blksize: %s" % o.residual, o.loc,
             sample={"monitor": "final", "receive at": o.loc, "proven": o.proven})
    # a-iv: receives are time bounded
    time_bounded(world, eng, a)
    # single-port mode: the peer's ERROR reaches the worker (it is routed like any other packet of the transfer)
    from . import C12
    import_clause(world, tier, b, C12, "C12.d", ("stray-error",), "ERROR packets are routed / answered, not swallowed by the listener")
    return rep


def time_bounded(world, eng, a):
    prog = world.lib
    # every transfer socket gets set_read_timeout before the worker is created
    news = [e for e in eng.events if e.region == "listener" and base_name(e).endswith("worker::Worker::new") and e.inlined]
    a.need(len(set(e.node for e in news)), 2, "Worker::new call sites on the listener")
    g = graph_of(eng)
    srt = [e for e in eng.events if e.region == "listener" and base_name(e) == "tftpd::socket::Socket::set_read_timeout"]
    for e in news:
        doms = [s for s in srt if g.dominated_by_node((eng.entry_frame, 0), e.node, s.node)]
        same = [s for s in doms if len(s.args) > 1 and len(e.args) > 4 and s.args[1] == e.args[4]]
        a.ob(bool(same), "read-timeout-before-worker in %s" % short(e.body),
             "a worker is created without set_read_timeout(<the negotiated timeout>) on its socket (a silent peer blocks it forever)", e.loc,
             sample={"Worker::new at": e.loc, "dominating set_read_timeout with the same Duration": len(same)})
    # the OS-level receive of the UDP-backed socket is not retried inside the impl: an expired read timeout (WouldBlock / TimedOut)
    # surfaces as Err to the worker's retry accounting
    for meth in ("recv_with_size", "recv_from_with_size"):
        impl_u = "tftpd::<std::net::UdpSocket as socket::Socket>::" + meth
        if impl_u not in prog.bodies:
            a.fail("anchor-lost UdpSocket::%s" % meth, "impl Socket for UdpSocket::%s not found" % meth)
            continue
        eu = world.run("sock:" + impl_u)
        gu = graph_of(eu)
        osr = [e for e in eu.events if not e.inlined and base_name(e) in ("std::net::UdpSocket::recv", "std::net::UdpSocket::recv_from", "std::net::UdpSocket::peek",
                                                                         "std::net::UdpSocket::peek_from")]
        a.need(len(osr), 1, "OS receive in UdpSocket::%s" % meth)
        for e in osr:
            looped = gu.on_cycle_avoiding(e.node)
            a.ob(not looped, "os-receive-retried in %s" % meth,
                 "impl Socket for UdpSocket::%s calls the OS receive in a loop: a read time-out (reported as WouldBlock / TimedOut) can be retried there "
                 "forever and never reaches the worker's bounded retry" % meth, e.loc, sample={"OS receive": base_name(e), "inside a loop": looped})
    # the channel-backed socket waits with a timeout taken from its own field, which set_read_timeout stores
    impl_recv = "tftpd::<socket::ServerSocket as socket::Socket>::recv_with_size"
    impl_set = "tftpd::<socket::ServerSocket as socket::Socket>::set_read_timeout"
    # the socket's own timeout: the Duration kept in the ServerSocket value (possibly inside a private helper struct)
    dur_paths = [pth for (pth, ti_, nm_) in world.struct_leaves("tftpd::socket::ServerSocket") if prog.types[ti_]["s"] == "std::time::Duration"] \
        if "tftpd::socket::ServerSocket" in prog.adts else []
    fi = dur_paths[0] if dur_paths else None
    if impl_recv in prog.bodies and impl_set in prog.bodies and fi is not None:
        e1 = world.run("fn:" + impl_recv)
        waits = [e for e in e1.events if base_name(e).startswith("std::sync::mpsc::Receiver::recv")]
        a.need(len(waits), 1, "channel receive in ServerSocket::recv_with_size")
        for e in waits:
            n = base_name(e)
            okk = n.endswith("recv_timeout") and len(e.args) > 1 and term_contains(e.args[1], lambda t: isinstance(t, tuple) and len(t) == 3 and t[0] == "init" and tuple(t[2][:len(fi)]) == tuple(fi)) or \
                (n.endswith("recv_timeout") and len(e.args) > 1 and is_field_read(e1, e.args[1], fi))
            a.ob(okk, "channel-wait-unbounded", "ServerSocket::recv_with_size waits on its channel without the socket's timeout", e.loc,
                 sample={"wait": n, "timeout arg": repr(e.args[1])[:80] if len(e.args) > 1 else None})
        e2 = world.run("fn:" + impl_set)
        stored = False
        for (node, root, path, v) in e2.writes_log:
            if root[0] == "P" and tuple(path[:len(fi)]) == tuple(fi):
                stored = True
        a.ob(stored, "read-timeout-not-stored", "ServerSocket::set_read_timeout does not store the duration used by recv_with_size",
             sample={"set_read_timeout stores field": fi, "stored": stored})
    else:
        a.fail("anchor-lost ServerSocket impl", "impl Socket for ServerSocket (recv_with_size/set_read_timeout) or field timeout not found")


def is_field_read(eng, v, fi):
    """value is the (lazily initialised) content of field fi of the method's self object"""
    if isinstance(v, tuple) and v and v[0] == "t":
        t = v[1]
        return isinstance(t, tuple) and t and t[0] == "init" and len(t) == 3 and tuple(t[2][:len(fi)]) == tuple(fi)
    return False
