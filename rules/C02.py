"""C02 - Upload fidelity: stored file = in-order blocks once each; ACK implies stored."""
from analyzer import lin
from .common import *
from .workers import *

FILE_TY = "std::fs::File"


def find_accept(R, loopn):
    """the acceptance test of the receiver: an Eq edge between the block number of the received DATA and
    wrapping_add(<last accepted>, 1). Returns list of dicts."""
    eng = R.eng
    rf = recv_field_syms(R)
    out = []
    for edge, conds in eng.edge_conds.items():
        if edge[0] not in loopn:
            continue
        for c in conds:
            if c[0] != "bool" or c[1][0] != "cmp":
                continue
            op, a, b, truth = c[1][1], c[1][2], c[1][3], c[2]
            if op not in ("Eq", "Ne"):
                continue
            sa, sb = single_sym(a), single_sym(b)
            if sa is None or sb is None:
                continue
            for (r, w) in ((sa, sb), (sb, sa)):
                if r in rf and sym_is_wrap(eng, w, "add"):
                    n = eng.sym_names[w]
                    la, lb = n[3], n[4]
                    if lb == (1, ()) and single_sym(la) is not None:
                        eq_true = (op == "Eq" and truth) or (op == "Ne" and not truth)
                        out.append({"edge": edge, "r": r, "wrap": w, "E_sym": single_sym(la), "accept": eq_true})
    return out


def check(world, tier):
    prog = world.lib
    rep = Report("C02")
    rep.level = "other"
    rep.trusted_base = ["rustc nightly MIR", "ghost monitor 'dirty' discharged by the abstract interpreter", "path queries on the inlined supergraph",
                        "abstract interpretation of impl Socket for UdpSocket (payload bound)"]
    rep.assumptions = ["write_all either writes everything or returns an error (kernel write semantics are not modelled)"]
    rep.explanation = ("Decided for every arrival history at once (the rules quantify over all results of the socket receive): (a) a block enters the "
                       "window only on the true edge of  received == last_accepted.wrapping_add(1), where last_accepted := received is the only write "
                       "to it, and the queued bytes are that packet's payload; (b) typestate: no ACK is sent while accepted blocks are unwritten "
                       "[ghost dirty proved by the interpreter, loops included]; the flush writes every queued element in order before clearing; "
                       "(c) every ACK carries last_accepted; an ACK carrying the received number is only sent behind the acceptance edge; (d) the sink is "
                       "an unbuffered std::fs::File created from the worker's path; (e) payloads are bounded by blksize (UdpSocket impl). "
                       "NOT decided: kernel write semantics.")
    eng = world.run("listen")
    Rv = region_for(world, eng, "::receive")
    a = rep.clause("C02.a", "a block is accepted only if its number is last_accepted + 1 (mod 2^16); the payload of that packet is queued")
    b = rep.clause("C02.b", "flush before ACK: no acknowledgement while accepted blocks are only in the window buffer")
    c = rep.clause("C02.c", "every ACK carries the last in-sequence block number")
    d = rep.clause("C02.d", "the sink is an unbuffered std::fs::File created (truncating) from the worker's target path")
    e_ = rep.clause("C02.e", "payload length is bounded by the negotiated block size")
    if Rv is None:
        a.fail("anchor-lost receive-closure", "closure spawned by Worker::receive not found")
        return rep
    g = Rv.g
    lps = Rv.transfer_loops()
    rep.analysed = {"region": Rv.name, "events": len(Rv.events), "loops": len(lps)}
    if not a.need(len(lps), 1, "receive loop"):
        return rep
    fid, h = lps[0]
    loopn = Rv.loop_nodes(fid, h)
    tf = Rv.transfer_frame()
    pushes = set(Rv.push_nodes())
    a.need(len(pushes), 1, "queue push in the receive region")
    acc = find_accept(Rv, loopn)
    acc_true = [x for x in acc if x["accept"]]
    a.need(len(acc_true), 1, "acceptance test  received == last + 1 (wrapping)")
    acc_edges = set(x["edge"] for x in acc_true)
    for p in pushes:
        ok = bool(acc_edges) and g.dominated_by_edges(Rv.entry, p, acc_edges)
        a.ob(ok, "push-without-sequence-test", "a received block can be queued for writing without being exactly the next block in sequence "
             "(duplicate / out-of-order / wrap-around confusion would corrupt the file)", sample={"push": node_str(prog, p), "dominated by": "received == last.wrapping_add(1)"})
    # E := r is the only write to E inside the loops, and it happens behind the acceptance edge
    rf = recv_field_syms(Rv)
    E_roots = set()
    for x in acc_true:
        nm = eng.sym_names[x["E_sym"]]
        if isinstance(nm, tuple) and nm[0] == "phi":
            E_roots.add(nm[3])
    a.need(len(E_roots), 1, "last-accepted block number variable")
    outer = Rv.loop_nodes(*lps[-1])
    for root in E_roots:
        for (node, wr, wp, v) in eng.writes_log:
            if wr != root or wp != () or node not in outer:
                continue
            # `last := received`, or `last := last.wrapping_add(1)` - the value the received number was just found equal to
            is_r = isinstance(v, tuple) and v and v[0] == "i" and (single_sym(v[1]) in rf or single_sym(v[1]) in set(x["wrap"] for x in acc_true))
            ok = is_r and g.dominated_by_edges(Rv.entry, node, acc_edges)
            a.ob(ok, "last-accepted-written-elsewhere", "the last-accepted block number is changed other than by `last := received` behind the acceptance test",
                 sample={"write": node_str(prog, node), "value": "received block number" if is_r else repr(v)[:60]})
        # type: u16
        sti = eng.static_type(root, ())
        a.ob(sti is not None and prog.types[sti].get("bits") == 16 and not prog.types[sti].get("signed"), "block-number-type",
             "the last-accepted block number is not a u16", nontrivial=False)
    # the pushed value is the payload of the received packet
    terms = set(ev.ret[1] for n in Rv.recv_nodes() for ev in Rv.by_node[n] if not ev.inlined and isinstance(ev.ret, tuple) and ev.ret[0] == "t")
    for e in Rv.events:
        if e.node in pushes and base_name(e) == "std::collections::VecDeque::push_back":
            v = e.args[1] if len(e.args) > 1 else None
            ok = isinstance(v, tuple) and v[0] == "t" and isinstance(v[1], tuple) and v[1][0] == "proj" and v[1][1] in terms
            a.ob(ok, "queued-value-not-payload", "the value queued for writing is not the data field of the received packet", e.loc,
                 sample={"queued": repr(v)[:90]})
    # ------------------------------------------------------------ b
    gd = [o for o in eng.obligations.values() if o.kind == "ghost:dirty" and o.region == Rv.name]
    b.need(len(gd), 1, "ACK sends in the receive region (monitor dirty)")
    for o in gd:
        b.ob(o.proven, "ack-before-flush in %s" % short(o.body), o.residual or "", o.loc, sample={"monitor": "dirty", "ACK at": o.loc, "proven": o.proven})
    flush_contract(world, b)
    # ------------------------------------------------------------ c
    ack_events = [e for e in Rv.send_events() if Rv.packet_variants(e) in ("Ack", None)]
    c.need(len(ack_events), 1, "ACK send events")
    E_syms = set(x["E_sym"] for x in acc_true)
    for nm, sid in eng.sym_ids.items():
        if isinstance(nm, tuple) and nm and nm[0] == "phi" and len(nm) == 5 and nm[3] in E_roots and nm[4] == ():
            E_syms.add(sid)
    r_syms = set(x["r"] for x in acc_true)
    for e in ack_events:
        snap = arg_pointee(e, 1) or {}
        vals = [v for k, v in snap.items() if k and k[0] == ("v", prog.variant_by_discr(PACKET, discr_of(snap) if discr_of(snap) is not None else -1)) and v[0] == "i"]
        for v in vals:
            s_ = single_sym(v[1])
            const0 = (v[1] == (0, ()))
            if s_ in E_syms or const0:
                c.ob(True, "ack-value", "", nontrivial=True, sample={"ACK value": "last accepted"})
            elif s_ in r_syms or s_ in set(x["wrap"] for x in acc_true):
                ok = g.dominated_by_edges(Rv.entry, e.node, acc_edges)
                # the same node is shared by all ACK sends (repeat helper): check the call site in the transfer frame instead
                sites = call_sites_in_frame(Rv, [e.node], fid)
                ok = all(g.dominated_by_edges(Rv.entry, s, acc_edges) for s in sites) if sites else ok
                c.ob(ok, "ack-of-unaccepted-block", "an ACK carrying the number of the received packet is sent without the acceptance test", e.loc)
            else:
                c.ob(False, "ack-value-unknown", "an ACK carries a value that is neither the last accepted block number nor the accepted packet's number", e.loc,
                     sample={"ACK value": lin.show(v[1])})
    # ------------------------------------------------------------ d
    sink_clause(world, eng, Rv, d)
    # ------------------------------------------------------------ e
    payload_bound(world, eng, Rv, e_)
    # single-port mode: the datagram reaches the worker through the listener's buffer, which must never shrink below an accepted blksize
    from .listener import buffer_monotone
    f_ = rep.clause("C02.f", "single-port: the listener's receive buffer never shrinks (a DATA block is never truncated on its way to the worker)")
    buffer_monotone(world, eng, f_, "a DATA block of an upload in flight is truncated, acknowledged and stored short (and taken for the final block)")
    # the block length the worker uses is the one acknowledged (shared with C09.c / C09.d): otherwise the peer's DATA does not fit
    from . import C09
    import_clause(world, tier, e_, C09, "C09.c", ("blk",), "worker block size = acknowledged block size")
    import_clause(world, tier, e_, C09, "C09.d", ("BlockSize", "blk"), "only honourable block sizes are acknowledged")
    return rep


def flush_contract(world, b):
    """Window::empty (the function that clears the queue): writes every element in iteration order with write_all,
    propagates a write error before clearing, clears after the loop"""
    prog = world.lib
    eng = world.run("window:empty") if WINDOW + "::empty" in prog.bodies else None
    if eng is None:
        # locate by role: the Window method that calls VecDeque::clear
        b.fail("anchor-lost Window::empty", "public Window::empty not found")
        return
    g = graph_of(eng)
    entry = (eng.entry_frame, 0)
    clears = [e for e in eng.events if base_name(e) == "std::collections::VecDeque::clear"]
    writes = [e for e in eng.events if not e.inlined and (base_name(e).startswith("std::io::Write::") or "as std::io::Write>" in base_name(e))]
    nexts = [e for e in eng.events if base_name(e) == "<std::collections::vec_deque::Iter<'a, T> as std::iter::Iterator>::next"]
    # or a traversal of the queue's (forward) iterator by a closure-taking adapter
    adapters = [e for e in eng.events if base_name(e) in ("std::iter::Iterator::try_for_each", "std::iter::Iterator::for_each") and not e.inlined
                and isinstance(e.args[0], tuple) and ((e.args[0][0] == "agg" and e.args[0][1].get(("$over",)) is not None) or
                                                      (e.argsnap and isinstance(e.argsnap[0], dict) and e.argsnap[0].get(("$over",)) is not None))]
    nexts = nexts + adapters
    b.need(len(clears), 1, "queue clear in the flush")
    b.need(len(writes), 1, "file write in the flush")
    b.need(len(nexts), 1, "front-to-back iteration in the flush")
    for w in writes:
        n = base_name(w)
        b.ob(n == "std::io::Write::write_all", "flush-uses-%s" % n.split("::")[-1],
             "the flush writes with %s, which may write only part of the data (write_all is required)" % n, w.loc,
             sample={"write call": n})
        # written value is the element handed out by the iterator
        v = w.args[1] if len(w.args) > 1 else None
        ok = isinstance(v, tuple) and v[0] == "r" and isinstance(v[1], tuple) and v[1][0] == "P" and isinstance(v[1][1], tuple) and v[1][1][0] == "elem"
        b.ob(ok, "flush-writes-element", "the flush does not write the element produced by the queue iterator", w.loc)
    # every cycle of the iteration writes once
    # the loops that contain a write of the flush (in Window::empty itself or in a helper it calls)
    from .workers import Region
    Rf = Region(world, eng, "fn:" + WINDOW + "::empty")
    loops = []
    for w in writes:
        for lp in Rf.loops_containing(w.node):
            if lp not in loops and lp not in getattr(eng, "iter_loops", {}):
                loops.append(lp)
    wn = set(w.node for w in writes)
    for (fid, h) in loops:
        b.ob(not g.on_cycle_avoiding((fid, h), avoid_nodes=wn), "flush-skips-element", "an iteration of the flush loop can skip the write of its element")
    for ad in adapters:
        # the callable's frames: every path through it passes the write
        for fid2 in set(n[0] for n in g.succ if len(n[0]) == len(ad.ctx) + 1 and n[0][:len(ad.ctx)] == ad.ctx and n[0][-1][0] == "call" and n[0][-1][3] == ad.bb):
            b.ob((fid2, "ret") not in g.reachable([(fid2, 0)], avoid_nodes=wn), "flush-skips-element", "a call of the flush closure can skip the write of its element", ad.loc)
    b.ob(bool(loops) or bool(adapters), "flush-no-iteration", "the flush does not iterate over the queue", nontrivial=False)
    # clear only after the loop finished without error: clear node not reachable from a failed write's edge, and dominated by the iterator's None
    for cl in clears:
        for w in writes:
            fc = failure_condition(eng, w)
            if fc is None:
                continue
            bad = False
            for edge, conds in eng.edge_conds.items():
                for cnd in conds:
                    if cnd[0] in ("eq",) and single_sym(cnd[1]) == fc[0] and cnd[2] == fc[1]:
                        if cl.node in g.reachable([], src_edges=[edge]):
                            bad = True
            b.ob(not bad, "clear-after-failed-write", "the queue is cleared although a write failed (acknowledged data would be lost)", cl.loc)
        # not inside the loop
        for (fid, h) in loops:
            b.ob(cl.node not in Rf.loop_nodes(fid, h), "clear-inside-loop", "the queue is cleared inside the write loop", cl.loc)
    # Try on write result: a failed write returns Err
    finals_ok = [s for s in eng.finals if ret_discr(eng, s) == 0]
    for w in writes:
        fc = failure_condition(eng, w)
        if fc is None:
            b.ob(False, "write-result-ignored", "cannot identify the write's result", w.loc)
            continue
        surv = [1 for s in finals_ok if state_has(s, fc[0], fc[1])]
        for (k, backs) in eng.loop_backs.items():
            surv += [1 for s in backs if state_has(s, fc[0], fc[1])]
        b.ob(not surv, "write-error-swallowed", "a failed write does not make the flush fail", w.loc)


def sink_clause(world, eng, Rv, d):
    prog = world.lib
    fi_file = world.window_layout().get("file")
    if fi_file is None:
        d.fail("anchor-lost Window.file", "Window has no field `file`")
        return
    fty = leaf_type(prog, WINDOW, fi_file)
    d.ob(prog.types[fty]["s"] == FILE_TY, "window-file-type", "the Window's file is %s, not an unbuffered std::fs::File "
         "(a userspace buffer between write_all and the kernel breaks 'ACK implies stored'; a buffered reader breaks short-read = EOF)" % prog.types[fty]["s"],
         sample={"Window.file type": prog.types[fty]["s"]})
    creates = [e for e in Rv.events if not e.inlined and base_name(e) in ("std::fs::File::create", "std::fs::OpenOptions::open", "std::fs::File::options",
                                                                          "std::fs::File::create_new", "std::fs::File::open")]
    d.need(len(creates), 1, "file creation in the receive region")
    for e in creates:
        okt, pi = truncating_open(Rv, e)
        d.ob(okt, "sink-not-truncating-create", "the upload target is opened with %s without truncation: a shorter upload leaves the tail of the old file" % base_name(e), e.loc,
             sample={"open call": base_name(e)})
        ok = env_key(Rv, e, pi) is not None
        d.ob(ok, "sink-path-provenance", "the created file's path is not a captured value of the worker closure", e.loc)


def payload_bound(world, eng, Rv, e_):
    prog = world.lib
    recvs = [e for n in Rv.recv_nodes() for e in Rv.by_node[n] if not e.inlined]
    lps = Rv.transfer_loops()
    loopn = Rv.loop_nodes(*lps[0]) if lps else set()
    inloop = [e for e in recvs if e.node in loopn]
    e_.need(len(inloop), 1, "receive inside the loop")
    for e in inloop:
        v = e.args[1] if len(e.args) > 1 else None
        s_ = single_sym(v[1]) if isinstance(v, tuple) and v[0] == "i" else None
        nm = eng.sym_names[s_] if s_ is not None else None
        ok = env_field(Rv, s_, "blk_size")
        e_.ob(ok, "recv-size-is-blksize", "the receive buffer size of the data phase is not the negotiated block size", e.loc,
              sample={"recv_with_size(size)": str(nm)[:80]})
    impl = "tftpd::<std::net::UdpSocket as socket::Socket>::recv_with_size"
    if impl not in prog.bodies:
        e_.fail("anchor-lost UdpSocket::recv_with_size", "impl not found")
        return
    e2 = world.run("sock:" + impl)
    oks = [s for s in e2.finals if ret_discr(e2, s) == 0]
    e_.need(len(oks), 1, "Ok return states of UdpSocket::recv_with_size")
    size = e2.read(oks[0], ("L", e2.entry_frame, 2), ()) if oks else None
    vi_data = None
    a = prog.adts.get(PACKET)
    for i, v in enumerate(a["variants"]):
        if v["name"] == "Data":
            vi_data = i
            fi_d = [f["name"] for f in v["fields"]].index("data")
    for s in oks:
        dv = ret_discr(e2, s, ((("v", 0)), 0))
        if variant_name(prog, PACKET, dv) != "Data":
            continue
        ln = e2.read(s, ("L", e2.entry_frame, 0), (("v", 0), 0, ("v", vi_data), fi_d, "$len"))
        ok = ln[0] == "i" and size is not None and size[0] == "i" and s.ctx.entails(lin.le(ln[1], size[1]))
        e_.ob(ok, "payload-exceeds-size", "UdpSocket::recv_with_size(size) can return a DATA payload longer than size",
              sample={"Ok(Data)": "len(data) <= size", "entailed": ok})
