"""C11 - Codec round-trip and RFC wire layout for all six packet kinds."""
from analyzer import lin
from .common import *

PACKET = "tftpd::packet::Packet"
OPCODE = "tftpd::packet::Opcode"
ERRORCODE = "tftpd::packet::ErrorCode"
OPTIONTYPE = "tftpd::packet::OptionType"
TRANSFEROPTION = "tftpd::packet::TransferOption"
RFC_OPCODES = {"Rrq": 1, "Wrq": 2, "Data": 3, "Ack": 4, "Error": 5, "Oack": 6}
RFC_ERRORS = {"NotDefined": 0, "FileNotFound": 1, "AccessViolation": 2, "DiskFull": 3, "IllegalOperation": 4, "UnknownId": 5, "FileExists": 6, "NoSuchUser": 7}
RFC_OPTIONS = {"BlockSize": "blksize", "TransferSize": "tsize", "Timeout": "timeout", "Windowsize": "windowsize"}


def enum_conversion(world, cl, adt, rfc, lo, hi):
    """from_u16 is the inverse of `as u16` on exactly the declared values; everything else is Err. Exhaustive over u16 by case analysis
    of the return states (each carries the constraints of its switch arm)."""
    prog = world.lib
    path = adt + "::from_u16"
    if path not in prog.bodies:
        cl.fail("anchor-lost %s" % short(path), "public %s not found" % path)
        return
    e = world.run("fn:" + path)
    a = prog.adts[adt]
    decl = {v["name"]: prog.variant_discr(adt, i) for i, v in enumerate(a["variants"])}
    for n, v in rfc.items():
        cl.ob(decl.get(n) == v, "%s-discriminant %s" % (short(adt), n), "%s::%s has value %s, RFC says %d" % (short(adt), n, decl.get(n), v), sample={n: decl.get(n)})
    cl.ob(set(decl) == set(rfc), "%s-variants" % short(adt), "%s has variants %s" % (short(adt), sorted(decl)), nontrivial=False)
    arg = e.read(e.finals[0], ("L", e.entry_frame, 1), (), e.frame_bodies[e.entry_frame].local_ty(1)) if e.finals else None
    cl.need(len(e.finals), len(decl) + 1, "return states of %s" % short(path))
    covered = set()
    for s in e.finals:
        d = ret_discr(e, s)
        if d == 0:
            pv = e.read(s, ("L", e.entry_frame, 0), (("v", 0), 0, "$discr"))
            ok = pv[0] == "i" and not pv[1][1] and s.ctx.entails_eq(arg[1], lin.const(pv[1][0]))
            if ok:
                covered.add(pv[1][0])
            cl.ob(ok, "%s-from_u16-not-inverse" % short(adt),
                  "%s::from_u16 maps some value to the variant with discriminant %s although the value is not %s (encode(decode(v)) != v)"
                  % (short(adt), pv[1][0] if pv[0] == "i" and not pv[1][1] else "?", pv[1][0] if pv[0] == "i" and not pv[1][1] else "?"),
                  sample={"Ok(variant with value k)": "only for input k"})
        else:
            # Err: none of the declared values may reach it
            bad = [v for v in decl.values() if not s.ctx.infeasible_with([lin.le(arg[1], lin.const(v)), lin.le(lin.const(v), arg[1])])]
            cl.ob(not bad, "%s-from_u16-rejects-valid" % short(adt), "%s::from_u16 rejects the valid values %s" % (short(adt), bad), sample={"Err": "only for undeclared values"})
    cl.ob(covered == set(decl.values()), "%s-from_u16-coverage" % short(adt), "%s::from_u16 accepts %s, declared are %s" % (short(adt), sorted(covered), sorted(decl.values())),
          sample={"accepted values": sorted(covered)})
    cl.ob(min(decl.values()) == lo and max(decl.values()) == hi and len(decl) == hi - lo + 1, "%s-range" % short(adt), "accepted range is not %d..%d" % (lo, hi), nontrivial=False)
    # as_bytes = to_be_bytes(self as u16)
    ab = adt + "::as_bytes"
    if ab in prog.bodies:
        e2 = world.run("fn:" + ab)
        for s in e2.finals:
            v = e2.read(s, ("L", e2.entry_frame, 0), ())
            ok = v[0] == "t" and isinstance(v[1], tuple) and v[1][0] == "app" and v[1][1] == "to_be_bytes"
            if ok:
                x = v[1][2][0]
                sym = x[1][1][0][0] if x[0] == "i" and len(x[1][1]) == 1 and x[1][0] == 0 else None
                nm = e2.sym_names[sym] if sym is not None else None
                ok = isinstance(nm, tuple) and nm[0] == "discr" and (nm[1] == ("L", e2.entry_frame, 1) or
                                                                     (isinstance(nm[1], tuple) and nm[1][:2] == ("init", ("L", e2.entry_frame, 1))))
            cl.ob(ok, "%s-as_bytes" % short(adt), "%s::as_bytes is not to_be_bytes(self as u16)" % short(adt), sample={"as_bytes": "big-endian of the discriminant"})
    else:
        cl.fail("anchor-lost %s" % short(ab), "public %s not found" % ab)


def describe(eng, seg, frame_events):
    """RFC-level descriptor of one segment of a byte-vector layout (analyzer/stdmodel.py, `$layout`)"""
    kind = seg[0]
    if kind == "acc":
        return ("accumulator",)
    if kind == "nested":
        if str(seg[2]).endswith("TransferOption::as_bytes"):
            return ("option-bytes",)
        return ("nested", seg[2])
    if kind == "byte":
        x = seg[1]
        if x[0] == "i" and x[1] == (0, ()):
            return ("zero",)
        return ("byte", repr(x)[:30])
    v = seg[1]
    sd = dict(seg[2] or ())
    star = sd.get(())

    def be(t):
        x = t[1][2][0]
        if x[0] == "i" and not x[1][1]:
            return ("be-const", x[1][0])
        if x[0] == "i" and len(x[1][1]) == 1:
            nm = eng.sym_names[x[1][1][0][0]]
            if isinstance(nm, tuple) and nm[0] == "init":
                return ("be-field", tuple(nm[2]))
            if isinstance(nm, tuple) and nm[0] == "discr":
                if isinstance(nm[1], tuple) and nm[1] and nm[1][0] == "init":
                    return ("be-discr", tuple(nm[1][2]) + tuple(nm[2]))
                return ("be-discr", tuple(nm[2]))
        return ("be-?", repr(x)[:40])

    def is_app(t, name):
        return isinstance(t, tuple) and t and t[0] == "t" and isinstance(t[1], tuple) and t[1][0] == "app" and t[1][1] == name

    if is_app(v, "to_be_bytes") or is_app(v, "to_le_bytes") or is_app(v, "to_ne_bytes"):
        return be(v) if v[1][1] == "to_be_bytes" else ("not-big-endian", v[1][1])
    if isinstance(v, tuple) and v and v[0] == "r":
        if star is not None and (is_app(star, "to_be_bytes") or is_app(star, "to_le_bytes") or is_app(star, "to_ne_bytes")):
            return be(star) if star[1][1] == "to_be_bytes" else ("not-big-endian", star[1][1])
        if sd.get((("a", 0),)) is not None and sd.get(("$len",)) is not None:
            ln = sd[("$len",)]
            z = sd[(("a", 0),)]
            if ln[1] == (1, ()) and z[0] == "i" and z[1] == (0, ()):
                return ("zero",)
            return ("bytes-const", repr(z)[:20])
        if v[1][0] == "P" and isinstance(v[1][1], tuple) and v[1][1][0] == "L" and len(v[1]) == 3 and v[1][2] == ():
            return ("field", tuple(v[2]))
        so = sd.get(("$slice_of",))
        sf = sd.get(("$slice_from",))
        if so is not None and so[0] == "r" and sf is not None and sf[1] == (0, ()):
            # a full slice of a local: the local's last written value
            val = None
            for (node, root, path, wv) in eng.writes_log:
                if root == so[1] and path == ():
                    val = wv
            if val is not None and is_app(val, "to_be_bytes"):
                return be(val)
            return ("slice-of", repr(val)[:60])
        if star is not None and is_app(star, "<T as std::string::ToString>::to_string"):
            args = star[1][3]
            a0 = args[0] if args else None
            if isinstance(a0, tuple) and a0 and a0[0] in ("r", "ref"):
                r0 = a0 if a0[0] == "r" else a0[1]
                return ("decimal-of", tuple(r0[2]))
            return ("decimal-of", "?")
        if v[1][0] in ("K",) or (v[1][0] == "P" and isinstance(v[1][1], tuple) and v[1][1] and v[1][1][0] in ("join", "phi")):
            if any(base_name(x).endswith("OptionType::as_str") for x in eng.events):
                return ("option-name",)
        if star is not None and star[0] == "t" and isinstance(star[1], tuple) and star[1][0] == "init":
            return ("field", tuple(star[1][2]))
    if isinstance(v, tuple) and v and v[0] == "t" and isinstance(v[1], tuple) and v[1][0] == "phi":
        return ("accumulator",)
    if isinstance(v, tuple) and v and v[0] == "t" and isinstance(v[1], tuple) and v[1][0] == "app" and "concat" in str(v[1][1]):
        return ("option-bytes",)
    return ("?", repr(v)[:60])


def describe_layout(eng, segs, frame_events):
    out = []
    for sg in segs:
        d = describe(eng, sg, frame_events)
        if d[0] == "nested":
            out.extend(describe_layout(eng, sg[1], frame_events))
        else:
            out.append(d)
    return out


def check(world, tier):
    prog = world.lib
    rep = Report("C11")
    rep.level = "other"
    rep.trusted_base = ["rustc nightly MIR", "abstract interpretation of the conversion functions (exhaustive over u16 by case analysis of switch arms)",
                        "provenance terms of the serializer's concatenations", "decoder offsets from the C10 run"]
    rep.explanation = ("Decided: (a) Opcode/ErrorCode conversions are mutually inverse over the whole 16-bit range - every Ok return state of from_u16 entails "
                       "input == discriminant of the returned variant, every Err state excludes all declared values, all declared values are covered, they are "
                       "the RFC values 1..6 / 0..7, as_bytes is the big-endian encoding of the discriminant; (b) for each packet kind the byte vector is the "
                       "concatenation, in order, of the RFC segments (big-endian opcode of that kind, fields, NUL separators, option name / decimal value "
                       "pairs in list order); (c) the decoder reads the same offsets the serializer writes (opcode at 0..2, block / code at 2, payload / "
                       "message at 4, strings from 2 each starting right after the previous NUL); (d) OptionType::from_str and as_str are mutually "
                       "inverse on the four RFC names. NOT decided: decode(encode(p)) == p for all packet values (value semantics of str::parse / "
                       "to_string / UTF-8 conversions).")
    # ---------------------------------------------------------------- a
    a = rep.clause("C11.a", "Opcode and ErrorCode conversions are mutually inverse over all of u16; RFC values; big-endian")
    enum_conversion(world, a, OPCODE, RFC_OPCODES, 1, 6)
    enum_conversion(world, a, ERRORCODE, RFC_ERRORS, 0, 7)
    # ---------------------------------------------------------------- b
    b = rep.clause("C11.b", "serializer layout per packet kind")
    ser = PACKET + "::serialize"
    if ser not in prog.bodies:
        b.fail("anchor-lost Packet::serialize", "public Packet::serialize not found")
        return rep
    eng = world.run("fn:" + ser)
    rep.analysed = {"serialize return states": len(eng.finals), "events": len(eng.events)}
    pk = prog.adts[PACKET]
    vnames = [v["name"] for v in pk["variants"]]
    b.need(len([s for s in eng.finals if ret_discr(eng, s) == 0]), 6, "Ok return states of serialize (one per kind)")
    # dispatch: each variant reaches its own serializer: the first-level callee frames, keyed by the variant whose fields they receive
    # every construction step of a byte vector (concat, to_vec, extend_from_slice, push, append ...) with its cumulative layout
    layouts = {}
    opt_layouts = []
    # in-place building logs every prefix; only the maximal layout of each vector counts (a matching prefix followed by more bytes is no match)
    maximal = []
    for ent in eng.layout_log:
        (node, fid, root, path, segs) = ent
        if any(o[2] == root and o[3] == path and len(o[4]) > len(segs) and o[4][:len(segs)] == segs for o in eng.layout_log):
            continue    # (whichever function performed the later append: helpers that take `&mut Vec<u8>` build the same vector)
        if ent not in maximal:
            maximal.append(ent)
    for (node, fid, root, path, segs) in maximal:
        fevents = [x for x in eng.events if x.ctx == fid]
        desc = describe_layout(eng, segs, fevents)
        fn = eng.frame_bodies[fid].path
        loc = eng.frame_bodies[fid].loc(node[1])
        if fn.endswith("TransferOption::as_bytes"):
            opt_layouts.append((loc, desc))
        else:
            layouts.setdefault(fid, []).append((loc, desc))
    b.need(len(eng.layout_log), 8, "byte-vector construction steps in the serializer")
    # which variant does a first-level frame serve: fields referenced
    def variant_of(desc_list):
        vs = set()
        for (_, desc) in desc_list:
            for d_ in desc:
                if d_[0] in ("field", "be-field", "be-discr") and d_[1] and isinstance(d_[1][0], tuple) and d_[1][0][0] == "v":
                    vs.add(d_[1][0][1])
        return vs
    seen = {}
    for fid, dl in layouts.items():
        top = fid[:2]
        vs = variant_of(dl)
        for v_ in vs:
            seen.setdefault(v_, []).extend(dl)
    def fpath(vi, name):
        names = [f["name"] for f in pk["variants"][vi]["fields"]]
        return (("v", vi), names.index(name) if name in names else 0)
    for vi, vn in enumerate(vnames):
        want_op = RFC_OPCODES.get(vn)
        if vn in ("Rrq", "Wrq"):
            want = [("be-const", want_op), ("field", fpath(vi, "filename")), ("zero",), ("field", fpath(vi, "mode")), ("zero",)]
        elif vn == "Data":
            want = [("be-const", want_op), ("be-field", fpath(vi, "block_num")), ("field", fpath(vi, "data"))]
        elif vn == "Ack":
            want = [("be-const", want_op), ("be-field", (("v", vi), 0))]
        elif vn == "Error":
            want = [("be-const", want_op), ("be-discr", fpath(vi, "code")), ("field", fpath(vi, "msg")), ("zero",)]
        else:
            want = None
        got = [d_ for (_, d_) in seen.get(vi, []) if d_ and d_[0][0] != "accumulator"]
        if want is not None:
            full = [d_ for d_ in got if len(d_) >= 2]
            ok = want in got and all(d_ == want for d_ in full)
            b.ob(ok, "layout-%s" % vn, "%s is serialised as %s, RFC layout is %s" % (vn, got[:2], want),
                 sample={"kind": vn, "segments": [list(map(str, x)) for x in (got[0] if got else [])]})
        # options appended per element, in list order
        if vn in ("Rrq", "Wrq", "Oack"):
            accs = [d_ for fid, dl in layouts.items() for (_, d_) in dl if d_ and d_[0][0] == "accumulator"]
            optl = [list(d_) for (_, d_) in opt_layouts]
            def is_opt_append(d_):
                if d_ == [("accumulator",), ("option-bytes",)] or (d_[:1] == [("accumulator",)] and d_[1:] in optl):
                    return True
                # the option written in place: name NUL decimal(value) NUL after what has been built so far
                return len(d_) == 5 and d_[0] == ("accumulator",) and d_[1] == ("option-name",) and d_[2] == ("zero",) and d_[3][0] == "decimal-of" and d_[4] == ("zero",)
            b.ob(bool(accs) and all(is_opt_append(d_) for d_ in accs), "options-appended-%s" % vn,
                 "options are not appended one by one after the fixed part (found %s)" % accs[:2], nontrivial=False)
    # Oack starts with its opcode
    oack_ok = False
    for e in eng.events:
        if base_name(e) == "std::slice::<impl [T]>::to_vec" and "serialize" in e.body:
            sn = e.argsnap[0] or {}
            v = e.args[0]
            txt = repr(e.argsnap[0])[:400] + repr(v)[:200]
            for (node, root, path, wv) in eng.writes_log:
                if isinstance(v, tuple) and v[0] == "r" and root == v[1] and isinstance(wv, tuple) and wv[0] == "t" and isinstance(wv[1], tuple) and wv[1][:2] == ("app", "to_be_bytes"):
                    x = wv[1][2][0]
                    if x[0] == "i" and x[1] == (RFC_OPCODES["Oack"], ()):
                        oack_ok = True
    b.ob(oack_ok, "layout-Oack", "an OACK does not start with the big-endian opcode 6", sample={"kind": "Oack", "starts with": "be(6)"})
    # options written in place (after an accumulator segment) count as option layouts too
    for fid_, dl in layouts.items():
        for (loc_, d_) in dl:
            if len(d_) >= 2 and d_[0] == ("accumulator",) and d_[1] == ("option-name",):
                opt_layouts.append((loc_, list(d_[1:])))
    b.need(len(opt_layouts), 1, "option serialisation")
    for (loc_, desc) in opt_layouts:
        fo = [f["name"] for f in prog.adts[TRANSFEROPTION]["variants"][0]["fields"]]
        ok = len(desc) == 4 and desc[0] == ("option-name",) and desc[1] == ("zero",) and desc[2][0] == "decimal-of" and desc[3] == ("zero",) and \
            (desc[2][1] == "?" or tuple(desc[2][1][-1:]) == (fo.index("value"),))
        b.ob(ok, "layout-option", "an option is serialised as %s, RFC 2347 layout is name NUL decimal-value NUL" % (desc,), loc_,
             sample={"option segments": [list(map(str, x)) for x in desc]})
    # ---------------------------------------------------------------- c offsets
    c = rep.clause("C11.c", "the decoder reads the offsets the serializer writes")
    ed = world.run("fn:" + PACKET + "::deserialize")
    starts = {}
    for (node, fid_, rk, st_, en_) in ed.index_log:
        fn = short(ed.frame_bodies[fid_].path)
        caller = short(frame_fn(fid_[:-1])) if len(fid_) > 1 else ""
        key = fn if not fn.endswith("Convert::to_string") else "to_string<-" + caller
        off = lin.show(st_) if st_[1] else st_[0]
        if rk == "ConstantIndex" and isinstance(off, int) and off < 4:
            off -= off % 2      # a byte-wise read (slice pattern) of a two-byte header field: the field starts at the even offset
        starts.setdefault(key, set()).add(off)
    c.need(len(ed.index_log), 5, "range reads of the datagram in the decoder")
    def has(k, v):
        return any(k_.endswith(k) and v in vs for k_, vs in starts.items())
    # role-located: functions called from deserialize per opcode are found by what they build; offsets checked as constants
    all_consts = set(v for vs in starts.values() for v in vs if isinstance(v, int))
    c.ob({0, 2, 4} <= all_consts, "fixed-offsets", "decoder does not read at the fixed offsets 0, 2 and 4 (reads at %s)" % sorted(all_consts),
         sample={"constant offsets read": sorted(all_consts)})
    extra = all_consts - {0, 2, 4}
    c.ob(not extra, "unexpected-offset", "decoder reads at unexpected constant offsets %s (serializer writes opcode at 0, number at 2, payload at 4, first string at 2)" % sorted(extra),
         sample={"unexpected": sorted(extra)})
    # per builder: which offsets feed which packet kind (from the return states)
    for s in [s for s in ed.finals if ret_discr(ed, s) == 0]:
        pass
    # chained strings: each next string starts right after the previous NUL: start == returned index of an earlier call + 1
    ts_calls = [e for e in ed.events if e.inlined and base_name(e).endswith("convert::Convert::to_string")]
    c.need(len(set(e.node for e in ts_calls)), 5, "string reads in the decoder")
    returned = set()
    for e in ts_calls:
        st_ = e.args[1] if len(e.args) > 1 else None
        if st_ is None or st_[0] != "i":
            continue
        callee_fid = None
        for fid_ in ed.frame_bodies:
            if len(fid_) == len(e.ctx) + 1 and fid_[:len(e.ctx)] == e.ctx and isinstance(fid_[-1], tuple) and fid_[-1][0] == "call" and fid_[-1][3] == e.bb:
                callee_fid = fid_
        if callee_fid is None:
            continue
        for nm, sid in ed.sym_ids.items():
            if isinstance(nm, tuple) and nm and nm[0] == "position" and nm[1][0] == callee_fid:
                returned.add(lin.add(lin.add(lin.var(sid), st_[1]), lin.const(1)))
    chained = 0
    for e in ts_calls:
        st_ = e.args[1] if len(e.args) > 1 else None
        if st_ is None or st_[0] != "i":
            c.ob(False, "string-start-unknown", "cannot determine where a string is read from", e.loc)
            continue
        s0 = st_[1]
        if not s0[1]:
            c.ob(s0[0] in (2, 4), "string-start-constant %d" % s0[0], "a string is read from constant offset %d (serializer writes strings at 2, the error message at 4)" % s0[0], e.loc,
                 sample={"string read at": s0[0]})
            continue
        phi_form = s0[0] == 1 and len(s0[1]) == 1 and s0[1][0][1] == 1 and isinstance(ed.sym_names[s0[1][0][0]], tuple) and ed.sym_names[s0[1][0][0]][0] == "phi"
        ok = s0 in returned or phi_form
        chained += 1 if ok else 0
        c.ob(ok, "string-chain-offset in %s" % short(e.body), "a string is read from %s, which is not (index of the previous NUL) + 1" % lin.show(s0), e.loc,
             sample={"string read at": "previous NUL + 1"})
    c.need(chained, 3, "strings that start one past the previous terminator")
    # the shortest encodings the serializer produces are accepted: DATA with an empty payload and ACK are 4 bytes long
    buf_len = ed.named(("len", ("P", ("L", ed.entry_frame, 1), ()), ()), None)
    Lb = lin.var(buf_len)
    why_min = {"Data": "DATA with an empty payload is the final block of a file whose size is a multiple of blksize", "Ack": "ACK",
               "Oack": "an OACK whose option list is empty - what the decoder itself returns for an OACK carrying only unknown options - is encoded as the bare opcode",
               "Error": "an ERROR with an empty message"}
    why_min["Error4"] = "an ERROR consisting of opcode and code only (message missing or unterminated) is still the peer's ERROR: the decoder reports it with a placeholder message"
    for vn, n in (("Data", 4), ("Ack", 4), ("Oack", 2), ("Error", 5), ("Error", 4)):
        oks = [s_ for s_ in ed.finals if ret_discr(ed, s_) == 0 and variant_name(prog, PACKET, ret_discr(ed, s_, ((("v", 0)), 0))) == vn]
        feas = [s_ for s_ in oks if not s_.ctx.infeasible_with([lin.le(Lb, lin.const(n)), lin.le(lin.const(n), Lb)])]
        c.ob(bool(feas), "minimal-%s-rejected" % (vn.lower() if (vn, n) != ("Error", 4) else "error-without-message"),
             "the decoder rejects a %d-byte %s datagram although the serializer produces it (%s): decode(encode(p)) != p for that packet"
             % (n, vn.upper(), why_min["Error4" if (vn, n) == ("Error", 4) else vn]),
             sample={"kind": vn, "accepted with len(buf) ==": n})
    # every 16-bit block number is accepted (0 is a legitimate number: the 65536th block of a long transfer)
    for vn in ("Data", "Ack"):
        vi_ = [i for i, x in enumerate(prog.adts[PACKET]["variants"]) if x["name"] == vn][0]
        oks = [s_ for s_ in ed.finals if ret_discr(ed, s_) == 0 and variant_name(prog, PACKET, ret_discr(ed, s_, ((("v", 0)), 0))) == vn]
        for val in (0, 1, 255, 256, 65535):
            feas = False
            for s_ in oks:
                nv = ed.read(s_, ("L", ed.entry_frame, 0), (("v", 0), 0, ("v", vi_), 0))
                if nv[0] == "i" and not s_.ctx.infeasible_with([lin.le(nv[1], lin.const(val)), lin.le(lin.const(val), nv[1])]):
                    feas = True
            c.ob(feas, "block-number-%d-rejected-%s" % (val, vn.lower()),
                 "the decoder rejects %s with block number %d: a transfer that reaches that number (wrap-around after 65535) stalls" % (vn.upper(), val),
                 sample={"kind": vn, "block number": val, "accepted": feas})
    # which parser reads what: Data/Ack/Error number at 2; Data payload and Error message at 4
    pk_events = {}
    for e in ed.events:
        if e.inlined and e.ctx == ed.entry_frame:
            pk_events[e.callee] = e
    # ---------------------------------------------------------------- d option names
    d = rep.clause("C11.d", "OptionType::from_str and as_str are mutually inverse on the RFC names")
    as_str = OPTIONTYPE + "::as_str"
    from_str = "tftpd::<packet::OptionType as std::str::FromStr>::from_str"
    if as_str in prog.bodies and from_str in prog.bodies:
        ot = prog.adts[OPTIONTYPE]
        for vi, v in enumerate(ot["variants"]):
            dv = prog.variant_discr(OPTIONTYPE, vi)
            from analyzer.engine import ICONST
            e1 = world.engine()

            def setup1(e, st, fr, dv=dv):
                e.write(st, ("P", ("L", fr.id, 1), ()), ("$discr",), ICONST(dv))
            fr1, fin1 = e1.run(as_str, setup=setup1, region="fn:" + as_str)
            names = set()
            for s in fin1:
                r = e1.read(s, ("L", fr1.id, 0), ())
                if r[0] == "r" and r[1][0] == "K" and r[1][1][0] == "str":
                    names.add(r[1][1][1])
            d.ob(names == {RFC_OPTIONS.get(v["name"])}, "as_str-%s" % v["name"], "OptionType::%s is spelled %s, RFC name is %s" % (v["name"], sorted(names), RFC_OPTIONS.get(v["name"])),
                 sample={v["name"]: sorted(names)})
            for nm in names:
                e2 = world.engine()

                def setup2(e, st, fr, nm=nm):
                    e.write(st, ("L", fr.id, 1), (), ("r", ("K", ("str", nm)), (), False))
                fr2, fin2 = e2.run(from_str, setup=setup2, region="fn:" + from_str)
                got = set()
                for s in fin2:
                    dd = s.store.get(("L", fr2.id, 0), {})
                    if dd.get(("$discr",)) is not None and dd[("$discr",)][1] == (0, ()):
                        pv = dd.get((("v", 0), 0, "$discr"))
                        got.add(pv[1][0] if pv is not None and not pv[1][1] else None)
                    else:
                        got.add("Err")
                d.ob(got == {dv}, "from_str-as_str-%s" % v["name"], "from_str(as_str(%s)) = %s" % (v["name"], sorted(map(str, got))), sample={"from_str(%r)" % nm: v["name"]})
        # nothing else is accepted: the set of strings compared equals the four names
        e3 = world.run("fn:" + from_str)
        cmp_names = set()
        for x in e3.events:
            if base_name(x) == "core::str::traits::<impl std::cmp::PartialEq for str>::eq":
                for a_ in x.args:
                    if isinstance(a_, tuple) and a_[0] == "r" and a_[1][0] == "K" and a_[1][1][0] == "str":
                        cmp_names.add(a_[1][1][1])
        for x in e3.events:
            if base_name(x).startswith("std::cmp::impls::<impl std::cmp::PartialEq<&B> for &A>::"):
                for sn in (x.argsnap or []):
                    a_ = sn.get(()) if isinstance(sn, dict) else None
                    if isinstance(a_, tuple) and a_[0] == "r" and a_[1][0] == "K" and a_[1][1][0] == "str":
                        cmp_names.add(a_[1][1][1])
        for edge, conds in e3.edge_conds.items():
            for cnd in conds:
                b_ = cnd[1] if cnd[0] == "bool" else None
                while isinstance(b_, tuple) and b_ and b_[0] == "not":
                    b_ = b_[1]
                if isinstance(b_, tuple) and b_ and b_[0] == "opaque" and isinstance(b_[1], tuple) and b_[1][0] == "streq":
                    for nm_ in (b_[1][3], b_[1][4]):
                        if nm_ is not None:
                            cmp_names.add(nm_)
        d.ob(cmp_names == set(RFC_OPTIONS.values()), "from_str-table", "OptionType::from_str compares with %s" % sorted(cmp_names), sample={"recognised names": sorted(cmp_names)})
    else:
        d.fail("anchor-lost OptionType conversions", "OptionType::as_str / FromStr not found")
    return rep
