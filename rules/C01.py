"""C01 - Download fidelity: every DATA block carries exactly its slice of the file."""
from analyzer import lin
from .common import *
from .workers import *

FILE_TY = "std::fs::File"
QUEUE_MUTATORS_OK = {"std::collections::VecDeque::push_back": "append", "std::collections::VecDeque::drain": "drain",
                     "std::collections::VecDeque::clear": "clear", "std::collections::VecDeque::pop_front": "remove oldest"}
QUEUE_READERS = {"std::collections::VecDeque::len", "std::collections::VecDeque::is_empty", "std::collections::VecDeque::iter",
                 "<&'a std::collections::VecDeque<T, A> as std::iter::IntoIterator>::into_iter", "std::collections::VecDeque::new",
                 "std::collections::VecDeque::front", "std::collections::VecDeque::back", "std::collections::VecDeque::get"}


def check(world, tier):
    prog = world.lib
    rep = Report("C01")
    rep.level = "other"
    rep.trusted_base = ["rustc nightly MIR", "modular (mod 2^16) normal forms of block-number terms", "abstract interpreter (ghost eof, obligations)",
                        "path queries on the inlined supergraph"]
    rep.assumptions = ["A-READ: File::read on a regular file returns a short count only at end of file"]
    rep.explanation = ("Decides the INDUCTIVE STEP that makes 'DATA k carries chunk k' true after every loop iteration, whatever the socket returned "
                       "(so it covers every loss/duplication/reordering schedule without enumerating one): (a) ALIGN - on the accepted-ACK path the number "
                       "of chunks drained from the queue front is congruent (mod 2^16) to the advance of the block number, which is written nowhere else; "
                       "(b) BURST - the burst walks the queue front to back, one DATA per element with the element's bytes, numbered from the block number "
                       "with wrapping_add(1) exactly once per element; (c) FILL - each iteration reads once into a fresh chunk_size buffer and appends exactly "
                       "that buffer (truncated to the count on a short read); the file is an unbuffered std::fs::File touched only by that read / the flush's "
                       "write; (d) QUEUE - the queue is only appended at the back, drained from the front (range start 0) or cleared, never handed out mutably; "
                       "(f) nothing is appended after the short chunk (ghost eof). NOT decided: byte equality at the peer (peer behaviour, file contents).")
    eng = world.run("listen")
    S = region_for(world, eng, "::send")
    a = rep.clause("C01.a", "ALIGN: chunks drained == advance of the block number (mod 2^16) on the accepted-ACK path; no other write")
    b = rep.clause("C01.b", "BURST: front-to-back, one DATA per element, element bytes, consecutive numbers from the block number")
    c = rep.clause("C01.c", "FILL: one read per iteration into a fresh chunk_size buffer, that buffer appended (truncated on a short read)")
    d = rep.clause("C01.d", "QUEUE discipline: append at the back, drain from the front, never mutably exposed")
    f = rep.clause("C01.f", "the first short chunk is the final block: nothing is appended after it")
    if S is None:
        a.fail("anchor-lost send-closure", "closure spawned by Worker::send not found")
        return rep
    g = S.g
    tf = S.transfer_frame()
    lps = S.transfer_loops()
    rep.analysed = {"region": S.name, "events": len(S.events)}
    rf = recv_field_syms(S)
    wr = window_roots(S)
    wl = world.window_layout()
    fi_el = wl.get("elements")
    fi_file = wl.get("file")
    fi_chunk = wl.get("chunk_size")
    if not (lps and wr and fi_el is not None):
        a.fail("anchor-lost send-structure", "send loop / Window not found in the send region")
        return rep
    wroot, wpath = wr[0]
    outer = S.loop_nodes(*lps[-1])
    # ---------------------------------------------------------------- a ALIGN
    # block-number variable B: the u16 local of the transfer frame that is assigned  received.wrapping_add(1)
    B = {}
    for (node, root, path, v) in eng.writes_log:
        if root[0] == "L" and root[1] == tf and path == () and isinstance(v, tuple) and v and v[0] == "i":
            s_ = single_sym(v[1])
            if s_ is not None and sym_is_wrap(eng, s_, "add"):
                n = eng.sym_names[s_]
                if n[4] == (1, ()) and single_sym(n[3]) in rf and node in outer:
                    B.setdefault(root, []).append((node, s_))
    # keep the loop-carried variable(s) only (temporaries holding the same value have no loop-head copy)
    B = {root: ups for root, ups in B.items() if any(isinstance(nm, tuple) and nm and nm[0] == "phi" and len(nm) == 5 and nm[3] == root and nm[4] == ()
                                                      for nm in eng.sym_ids)}
    for root in B:
        B[root] = sorted(set(B[root]), key=repr)
    a.need(len(B), 1, "block-number update  B := ack.wrapping_add(1)")
    drains = [e for e in S.events if base_name(e) == "std::collections::VecDeque::drain"]
    removals = []     # (key, location, starts at the front?, number of chunks removed)
    dlog = {}
    for (node, s_, e_) in eng.drain_log:
        dlog.setdefault(node, []).append((s_, e_))
    for e in drains:
        # range as computed by the drain model (any range syntax: a..b, ..b, ..=b)
        for (s_, e_) in dlog.get(e.node, []):
            removals.append(((e.node, repr((s_, e_))), e.loc, s_ == (0, ()), ("i", e_, None)))
    if not drains:
        # the window API is used instead of a drain in sight: Window::remove(k) removes exactly the k oldest chunks (contract C18.remove)
        rm = [e for e in S.events if e.inlined and base_name(e) == WINDOW + "::remove"]
        if rm:
            from . import C18
            import_clause(world, tier, a, C18, "C18.remove", ("",), "Window::remove(k) removes exactly the k oldest chunks")
        for e in rm:
            removals.append(((e.node, repr(e.args[1])[:2000]), e.loc, True, e.args[1] if len(e.args) > 1 else None))
    a.need(len(set(k for (k, _, _, _) in removals)), 1, "removal of the acknowledged chunks (drain from the front, or Window::remove)")
    for root, ups in B.items():
        sti = eng.static_type(root, ())
        a.ob(sti is not None and prog.types[sti].get("bits") == 16, "block-number-u16", "the sender's block number is not a u16", nontrivial=False)
        # every write to B inside the loops is such an update; the initial value is the constant 1
        for (node, wr_, wp, v) in eng.writes_log:
            if wr_ != root or wp != ():
                continue
            if node in outer:
                ok = any(node == n for n, _ in ups)
                a.ob(ok, "block-number-other-write", "the block number is written other than by  ack.wrapping_add(1)  on the accepted-ACK path",
                     sample={"write": node_str(prog, node)})
            else:
                ok = isinstance(v, tuple) and v[0] == "i" and v[1] == (1, ())
                a.ob(ok, "block-number-init", "the first block number is not 1", sample={"initial block number": repr(v)[:40]})
        # drained amount vs advance
        Bphi = [sid for nm, sid in eng.sym_ids.items() if isinstance(nm, tuple) and nm and nm[0] == "phi" and len(nm) == 5 and nm[3] == root and nm[4] == ()]
        done = set()
        from types import SimpleNamespace
        for (kk, loc_, front_ok, end) in removals:
            if kk in done:
                continue
            done.add(kk)
            e = SimpleNamespace(loc=loc_)
            a.ob(front_ok, "drain-not-from-front", "acknowledged chunks are not drained from the front of the queue (range start != 0)", e.loc)
            if end is None or end[0] != "i":
                a.ob(False, "drain-amount-unknown", "cannot determine the number of drained chunks", e.loc)
                continue
            drained = modform(eng, end[1])
            for (node, s_) in ups:
                newB = modform(eng, lin.var(s_))
                ok_any = False
                for bp in Bphi:
                    adv = mod_sub(newB, modform(eng, lin.var(bp)))
                    if mod_equal(adv, drained):
                        ok_any = True
                a.ob(ok_any, "window-front-misaligned",
                     "on the accepted-ACK path the number of chunks removed from the window differs (mod 2^16) from the advance of the block number: "
                     "from then on DATA k no longer carries chunk k", e.loc,
                     sample={"drained": show_mod(eng, drained), "advance": "B' - B with B' = " + show_mod(eng, newB)})
            # drain and update happen on the same accepted path: both dominated by the ACK edge
    # ---------------------------------------------------------------- b BURST
    data_events = [e for e in S.send_events() if S.packet_variants(e) == "Data"]
    b.need(len(data_events), 1, "DATA send events")
    a_pk = prog.adts[PACKET]
    vi_data = [i for i, v in enumerate(a_pk["variants"]) if v["name"] == "Data"][0]
    fnames = [f["name"] for f in a_pk["variants"][vi_data]["fields"]]
    counters = set()
    for e in data_events:
        snap = arg_pointee(e, 1) or {}
        bn = snap.get((("v", vi_data), fnames.index("block_num")))
        dt = snap.get((("v", vi_data), fnames.index("data")))
        okd = isinstance(dt, tuple) and dt[0] == "t" and isinstance(dt[1], tuple) and dt[1][0] == "app" and dt[1][1] == "to_vec" and \
            term_contains(dt, lambda t: isinstance(t, tuple) and len(t) >= 4 and t[0] == "elem" and t[3] == (wroot, tuple(wpath) + tuple(fi_el)))
        b.ob(okd, "data-payload-not-queue-element", "the payload of a DATA packet is not a copy of the queue element being visited", e.loc,
             sample={"DATA.data": repr(dt)[:100]})
        if isinstance(bn, tuple) and bn[0] == "i":
            s_ = single_sym(bn[1])
            if s_ is not None:
                counters.add(s_)
    # the numbering: counter starts at B (argument of the burst) and is advanced by wrapping_add(1) once per element
    burst_loops = set()
    for e in S.events:
        if base_name(e) in ("<std::collections::vec_deque::Iter<'a, T> as std::iter::Iterator>::next",
                            "<std::iter::Enumerate<I> as std::iter::Iterator>::next"):
            if base_name(e).startswith("<std::iter::Enumerate"):
                sn = e.argsnap[0] if e.argsnap and isinstance(e.argsnap[0], dict) else {}
                ov = sn.get(("$over",))
                if not (ov is not None and ov[0] == "r" and ov[1] == wroot and tuple(ov[2]) == tuple(wpath) + tuple(fi_el)):
                    continue
            lc = S.loops_containing(e.node)
            if lc:
                burst_loops.add(lc[0])     # the innermost loop that advances the queue iterator
    # ... or a closure-taking adapter over the queue's iterator (one call of the closure per element)
    for lp, info in getattr(eng, "iter_loops", {}).items():
        for ev in S.by_node.get(info["caller"], []):
            if ev.inlined or not ev.args:
                continue
            sub = ev.args[0][1] if isinstance(ev.args[0], tuple) and ev.args[0][0] == "agg" else (ev.argsnap[0] if ev.argsnap and isinstance(ev.argsnap[0], dict) else {})
            ov = sub.get(("$over",))
            if ov is not None and ov[0] == "r" and ov[1] == wroot and tuple(ov[2]) == tuple(wpath) + tuple(fi_el):
                burst_loops.add(lp)
    b.need(len(burst_loops), 1, "burst loop over the queue")
    for bl in sorted(burst_loops, key=repr):
        for (fid, h) in [bl]:
            ln = S.loop_nodes(fid, h)
            sends = set(n for n in call_sites_in_frame(S, S.send_nodes(variants=("Data",)), fid) if n in ln)
            b.need(len(sends), 1, "DATA send site in the burst loop")
            b.ob(not g.on_cycle_avoiding((fid, h), avoid_nodes=sends | (set(g.succ) - ln)), "burst-skips-element", "an iteration of the burst loop can skip sending its element")
            # counter: modified int local of the frame with increment wrapping_add(1)
            M = eng.loop_cache.get((fid, h), {}).get("M", set())
            okc = False
            for (root, path) in M:
                if root[0] != "L" or path != () or (root[1] != fid and (fid, h) not in getattr(eng, "iter_loops", {})):
                    continue
                ps = eng.sym_ids.get(("phi", fid, h, root, ()))
                if ps is None:
                    continue
                incs = set()
                others = set()
                for (node, wr_, wp, v) in eng.writes_log:
                    if wr_ == root and wp == () and node in ln:
                        s_ = single_sym(v[1]) if isinstance(v, tuple) and v[0] == "i" else None
                        n = eng.sym_names[s_] if s_ is not None else None
                        if isinstance(n, tuple) and n[0] == "wrap" and n[1] == "add" and n[3] == lin.var(ps) and n[4] == (1, ()):
                            incs.add(node)
                        else:
                            others.add(node)
                if path == () and False:
                    pass
                if ps in counters and incs and not others:
                    once = not g.on_cycle_avoiding((fid, h), avoid_nodes=incs | (set(g.succ) - ln))
                    # not twice: from an increment the next increment is only reachable through the head
                    twice = any(n2 in g.reachable([n1], avoid_nodes=set([(fid, h)]) | (set(g.succ) - ln)) - set([n1]) for n1 in incs for n2 in incs)
                    okc = once and not twice
                    # start value = argument of the burst = current block number
                    init = [v for (node, wr_, wp, v) in eng.writes_log if wr_ == root and wp == () and node not in ln]
                    okc = okc and all(isinstance(v, tuple) and v[0] == "i" and any(single_sym(v[1]) == bp for root_b in B for bp in
                                      [sid for nm, sid in eng.sym_ids.items() if isinstance(nm, tuple) and nm and nm[0] == "phi" and len(nm) == 5 and nm[3] == root_b and nm[4] == ()])
                                      for v in init) and bool(init)
            # the walk over the queue is not repeated with the counter running on: no loop between the transfer loops and the
            # burst loop (the N+1 copies of duplicate mode belong around the single send, inside the walk)
            tls = set(S.transfer_loops())
            inter = []
            for lp2 in S.loops_containing((fid, h) if (fid, h) not in getattr(eng, "iter_loops", {}) else eng.iter_loops[(fid, h)]["caller"]):
                if lp2 == (fid, h):
                    continue
                if lp2 in tls:
                    break
                inter.append(lp2)
            if inter:
                # fine if every pass re-initialises the DATA counter before walking the queue again
                inner_nodes = S.loop_nodes(*inter[0]) - ln
                reinit = any(wr_[0] == "L" and wp == () and node in inner_nodes and eng.sym_ids.get(("phi", fid, h, wr_, ())) in counters
                             for (node, wr_, wp, v) in eng.writes_log)
                if reinit:
                    inter = []
            b.ob(not inter, "burst-walk-repeated", "the walk over the window is itself inside another loop (%s): from the second pass on the same chunks go out "
                 "under block numbers that keep counting" % ", ".join(node_str(prog, x) for x in inter), sample={"loops between transfer loop and burst": len(inter)})
            if not okc:
                # numbering by position: block number == B + index (mod 2^16), index = the running count of `.enumerate()` over the queue
                idx_syms = [sid for nm, sid in eng.sym_ids.items() if isinstance(nm, tuple) and nm and nm[0] == "phi" and len(nm) == 5 and nm[1] == fid and nm[2] == h
                            and nm[4] and nm[4][-1] == "$enum"]
                Bsyms = [sid for root_b in B for nm, sid in eng.sym_ids.items()
                         if isinstance(nm, tuple) and nm and nm[0] == "phi" and len(nm) == 5 and nm[3] == root_b and nm[4] == ()]
                for e2 in data_events:
                    if e2.node not in ln:
                        continue
                    snap2 = arg_pointee(e2, 1) or {}
                    bn2 = snap2.get((("v", vi_data), fnames.index("block_num")))
                    if not (isinstance(bn2, tuple) and bn2[0] == "i"):
                        continue
                    mf = modform(eng, bn2[1])
                    for ie in idx_syms:
                        rest = mod_sub(mf, (0, {ie: 1}))
                        if any(mod_equal(rest, modform(eng, lin.var(bp))) for bp in Bsyms):
                            okc = True
            b.ob(okc, "burst-numbering", "DATA packets of a burst are not numbered B, B+1, ... (wrapping) with exactly one increment per element",
                 sample={"burst loop": node_str(prog, (fid, h)), "counter advanced by wrapping_add(1) once per element from B": okc})
    # ---------------------------------------------------------------- c FILL
    reads = [e for n in S.read_nodes() for e in S.by_node[n] if not e.inlined]
    c.need(len(set(e.node for e in reads)), 1, "file read in the send region")
    pushes = [e for e in S.events if base_name(e) == "std::collections::VecDeque::push_back"]
    c.need(len(set(e.node for e in pushes)), 1, "queue append in the send region")
    fty = leaf_type(prog, WINDOW, fi_file) if fi_file is not None else None
    c.ob(fty is not None and prog.types[fty]["s"] == FILE_TY, "window-file-type",
         "the Window reads through %s instead of an unbuffered std::fs::File: read() may return short counts before the end of the file, and a short "
         "chunk is taken for the final block" % (prog.types[fty]["s"] if fty is not None else "?"), sample={"Window.file": prog.types[fty]["s"] if fty is not None else None})
    for e in reads:
        c.ob(base_name(e) == "<std::fs::File as std::io::Read>::read", "fill-read-call", "the chunk is read with %s (only File::read has the short-read = EOF meaning)" % base_name(e), e.loc)
        buf = e.args[1] if len(e.args) > 1 else None
        okb = False
        if isinstance(buf, tuple) and buf[0] == "r":
            # the buffer: a local that holds vec![x; chunk_size]
            for x in S.events:
                if x.ctx == e.ctx and base_name(x) == "std::vec::from_elem" and x.dest[0] == buf[1]:
                    n = x.args[1] if len(x.args) > 1 else None
                    s_ = single_sym(n[1]) if isinstance(n, tuple) and n[0] == "i" else None
                    okb = s_ is not None and (env_field(S, s_, "blk_size") or is_window_field_value(eng, s_, wroot, wpath, fi_chunk))
        c.ob(okb, "fill-buffer", "the read buffer is not a fresh vec![_; chunk_size]", e.loc, sample={"read into": "vec![0; chunk_size]" if okb else repr(buf)[:60]})
        # exactly one read per iteration
        lpsr = S.loops_containing(e.node)
        if lpsr:
            fid, h = lpsr[0]
            ln = S.loop_nodes(fid, h)
            rn = set(x.node for x in reads)
            c.ob(not any(n2 in g.reachable([n1], avoid_nodes=set([(fid, h)]) | (set(g.succ) - ln)) - set([n1]) for n1 in rn for n2 in rn),
                 "fill-reads-twice", "an iteration of the fill loop can read twice before appending (a chunk would be skipped)")
            pn = set(x.node for x in pushes if x.node in ln or True)
            # every path from the read's Ok outcome back to the loop head or to a return appends
            fc = failure_condition(eng, e)
    for e in pushes:
        v = e.args[1] if len(e.args) > 1 else None
        okp = isinstance(v, tuple) and v[0] == "t" and isinstance(v[1], tuple) and v[1][0] == "app" and v[1][1] == "from_elem"
        c.ob(okp, "append-not-read-buffer", "the value appended to the queue is not the buffer that was just read into", e.loc, sample={"appended": repr(v)[:70]})
    # short read => truncate to the count before appending: the eof monitor needs len < chunk_size, which only the truncate gives;
    # and on the full path no truncate
    truncs = [e for e in S.events if base_name(e) == "std::vec::Vec::truncate"]
    c.need(len(set(e.node for e in truncs)), 1, "truncate of the short chunk")
    for e in truncs:
        n = e.args[1] if len(e.args) > 1 else None
        s_ = single_sym(n[1]) if isinstance(n, tuple) and n[0] == "i" else None
        nm = eng.sym_names[s_] if s_ is not None else None
        c.ob(isinstance(nm, tuple) and nm[0] == "io_n", "truncate-to-read-count", "the short chunk is not truncated to the number of bytes read", e.loc,
             sample={"truncate(n)": str(nm)[:60]})
    # who may touch the file
    file_users(world, c, fi_file)
    from . import C18
    import_clause(world, tier, c, C18, "C18.fill", ("read-piece-not-queued", "push-after-short-chunk"), "every piece read is queued, nothing after the short piece")
    # ---------------------------------------------------------------- d QUEUE
    queue_discipline(world, d, fi_el)
    # ---------------------------------------------------------------- f
    g_eof = [o for o in eng.obligations.values() if o.kind == "ghost:eof" and o.region == S.name]
    f.need(len(g_eof), 1, "queue appends monitored for end-of-file")
    for o in g_eof:
        f.ob(o.proven, "append-after-final-chunk in %s" % short(o.body), o.residual, o.loc, sample={"monitor": "eof", "append at": o.loc, "proven": o.proven})
    return rep


def show_mod(eng, m):
    parts = []
    for s, k in sorted(m[1].items()):
        parts.append("%s%s" % ("" if k == 1 else ("-" if k == 65535 else "%d*" % k), eng.sym_name(s)))
    parts.append(str(m[0]))
    return " + ".join(parts) + " (mod 65536)"


def is_window_field_value(eng, sym, wroot, wpath, fi):
    nm = eng.sym_names[sym]
    return False


def file_users(world, c, fi_file):
    """who may touch Window.file: every std call that receives a reference derived from the field (through moves,
    reborrows, closure captures and crate-local helpers) is the fill's read or the flush's write_all"""
    prog = world.lib
    own = leaf_owner(prog, WINDOW, fi_file) if fi_file is not None else None
    uses = [(bp, callee, loc) for (bp, callee, loc, m, bi) in field_ref_sinks(prog, own[0], own[1])] if own is not None else []
    c.need(len(uses), 2, "uses of Window.file in the crate")
    # (`std::io::Read::read` is the same call reached through a type parameter, `fn read_chunk(source: &mut impl Read, ..)`: which impl
    #  runs is decided by fill-read-call on the resolved call, and the field is an unbuffered File by window-file-type)
    allowed = {"<std::fs::File as std::io::Read>::read", "std::io::Read::read", "std::io::Write::write_all"}
    for (bp, callee, loc) in uses:
        c.ob(callee in allowed, "file-used-by %s in %s" % (callee, short(bp)),
             "the Window's file is passed to %s in %s: only the fill's read and the flush's write_all may touch it (no seek, no second handle, no buffering)" % (callee, short(bp)), loc,
             sample={"file user": callee, "in": short(bp)})


def queue_discipline(world, d, fi_el):
    prog = world.lib
    uses = []
    own = leaf_owner(prog, WINDOW, fi_el) if fi_el is not None else None
    for (bp, callee, loc, mut, bi) in (field_ref_sinks(prog, own[0], own[1]) if own is not None else []):
        if callee == "<return>":
            # a &mut to the queue that leaves its function would expose it
            d.ob(not mut or not prog.bodies[bp].vis, "queue-exposed-mutably in %s" % short(bp), "a &mut to the Window's queue is returned from %s" % short(bp), loc)
            continue
        uses.append((bp, callee, mut, loc))
    d.need(len(uses), 5, "uses of the Window's queue in the crate")
    for (bp, callee, mut, loc) in uses:
        ok = callee in QUEUE_MUTATORS_OK or callee in QUEUE_READERS
        d.ob(ok, "queue-op %s in %s" % (callee, short(bp)),
             "the Window's queue is used with %s in %s: only push_back / drain-from-front / clear and read-only accessors keep it a FIFO of file chunks" % (callee, short(bp)), loc,
             sample={"queue op": callee, "in": short(bp)})
    ge = prog.bodies.get(WINDOW + "::get_elements")
    if ge is not None:
        rt = prog.types[ge.local_ty(0)]
        d.ob(rt["k"] == "ref" and not rt.get("mut"), "get_elements-mutable", "Window::get_elements hands out a mutable reference", nontrivial=False)
