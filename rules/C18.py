"""C18 - Window buffer contract: ordered, bounded, loss-free chunk queue over a file."""
from analyzer import lin
from .common import *
from .workers import WINDOW
from . import C01, C02

METHODS = ["new", "fill", "empty", "remove", "add", "get_elements", "len", "is_empty", "is_full"]


def self_root(eng):
    return ("P", ("L", eng.entry_frame, 1), ())


def check(world, tier):
    prog = world.lib
    rep = Report("C18")
    rep.level = "proof"
    rep.trusted_base = ["rustc nightly MIR", "curated std models of VecDeque/Vec/File (lengths, drain/truncate/read post-conditions)",
                        "Fourier-Motzkin entailment", "Houdini loop invariants", "ghost monitor eof"]
    rep.assumptions = ["A-READ: File::read is short only at end of file", "type invariant len(elements) <= size assumed at method entry (fields are private; proved at every exit)"]
    rep.explanation = ("Each public Window method is interpreted abstractly on its own, for every receiver state satisfying the type invariant "
                       "len(elements) <= size, every argument and every I/O result: the invariant is re-established at every exit; fill pushes at most "
                       "size - len chunks, each read once into a chunk_size buffer, stops for good at the first short chunk (ghost eof) and returns true only "
                       "without a short read; remove(k) fails without effect when k > len and otherwise drains exactly 0..k; add fails without effect when "
                       "full and otherwise pushes exactly once; empty writes every element in order with write_all and clears only after success; the "
                       "observers are pure and the u16 narrowing of the length is lossless; fields are private and only Window's own methods touch them. "
                       "NOT decided: equality of the handed-out bytes with the file contents.")
    missing = [m for m in METHODS if WINDOW + "::" + m not in prog.bodies]
    an = rep.clause("C18.anchors", "public Window API")
    an.ob(not missing, "window-api", "public Window methods missing: %s" % missing, nontrivial=False)
    if missing:
        return rep
    wl = world.window_layout()
    fi = {n: (tuple(wl[n]) if wl.get(n) is not None else None) for n in ("elements", "size", "chunk_size", "file", "eof")}
    an.ob(all(fi[n] is not None for n in ("elements", "size", "chunk_size", "file")), "window-layout",
          "cannot locate the queue, size, chunk size or file inside the Window value built by Window::new", nontrivial=False)
    if any(fi[n] is None for n in ("elements", "size", "chunk_size", "file")):
        return rep
    w = prog.adts[WINDOW]
    enc = rep.clause("C18.encapsulation", "fields are private; only Window's methods touch the queue and the file")
    for f in w["variants"][0]["fields"]:
        enc.ob(not f["pub"], "public-field %s" % f["name"], "Window.%s is public: the invariant len <= size and the FIFO discipline can be broken from outside" % f["name"],
               sample={"field": f["name"], "pub": f["pub"]})
    tmp = Clause("x", "x")
    C01.queue_discipline(world, tmp, fi["elements"])
    C01.file_users(world, tmp, fi["file"])
    for f_ in tmp.findings:
        enc.ob(False, "via " + f_.key, f_.msg, f_.site)
    enc.obligations += tmp.obligations
    enc.discharged += tmp.discharged
    inv = rep.clause("C18.invariant", "len(elements) <= size holds at every exit of every method (and after new)")
    pure = rep.clause("C18.observers", "len / is_empty / is_full / get_elements are pure; the u16 narrowing of the length is lossless")
    runs = {}
    for m in METHODS:
        runs[m] = world.run("window:" + m)
    rep.analysed = {m: {"nodes": len(e.nodes), "events": len(e.events), "return_states": len(e.finals)} for m, e in runs.items()}
    for m, e in runs.items():
        for o in e.obligations.values():
            if o.kind.startswith("ghost"):
                continue
            inv.ob(o.proven, "%s: %s" % (m, ob_key(o)), "Window::%s: %s (%s)" % (m, o.detail, o.residual), o.loc,
                   sample={"method": m, "obligation": o.kind + " " + o.detail, "proven": o.proven})
        for wng in e.warnings:
            if wng[0] == "lossy-cast":
                pure.ob(False, "lossy-cast in %s" % m, "Window::%s narrows the queue length to %s without a bound" % (m, wng[3]))
        if m == "new":
            for s in e.finals:
                ln = e.read(s, ("L", e.entry_frame, 0), fi["elements"] + ("$len",))
                sz = e.read(s, ("L", e.entry_frame, 0), fi["size"])
                inv.ob(ln[0] == "i" and sz[0] == "i" and s.ctx.entails(lin.le(ln[1], sz[1])), "new: invariant", "Window::new does not establish len <= size")
            continue
        t = prog.types[e.frame_bodies[e.entry_frame].local_ty(1)]
        mutable = t["k"] == "ref" and t.get("mut")
        for s in e.finals:
            ln = e.read(s, self_root(e), fi["elements"] + ("$len",))
            sz = e.read(s, self_root(e), fi["size"])
            ok = ln[0] == "i" and sz[0] == "i" and s.ctx.entails(lin.le(ln[1], sz[1]))
            inv.ob(ok, "%s: invariant at exit" % m, "Window::%s can return with more than `size` elements buffered" % m,
                   sample={"method": m, "exit entails": "len(elements) <= size"})
        if m in ("len", "is_empty", "is_full", "get_elements"):
            pure.ob(not mutable, "%s takes &mut self" % m, "observer Window::%s takes &mut self" % m, nontrivial=False)
            wr = [x for x in e.mem_writes] + [x for x in e.events if base_name(x).startswith("std::collections::VecDeque::") and
                                              base_name(x).rsplit("::", 1)[-1] not in ("len", "is_empty", "iter", "front", "back")]
            pure.ob(not wr, "%s-not-pure" % m, "observer Window::%s modifies the window" % m, sample={"method": m, "writes": len(wr)})
    # ---------------------------------------------------------------- fill
    f = rep.clause("C18.fill", "fill: at most size - len pushes, one read per chunk, stops for good at the first short chunk, true only if no short read")
    e = runs["fill"]
    g_eof = [o for o in e.obligations.values() if o.kind == "ghost:eof"]
    f.need(len(g_eof), 1, "pushes monitored for end-of-file in fill")
    for o in g_eof:
        f.ob(o.proven, "push-after-short-chunk", o.residual, o.loc, sample={"monitor": "eof", "proven": o.proven})
    # no piece is lost: whatever a successful read returned (also zero bytes: the empty final piece) is queued before fill can
    # return Ok or read again
    gq = graph_of(e)
    reads_ = [x for x in e.events if not x.inlined and "std::io::Read" in base_name(x)]
    pushn = set(x.node for x in e.events if base_name(x).startswith("std::collections::VecDeque::push"))
    okret = set()
    for (node, root, path, v) in e.writes_log:
        if root == ("L", e.entry_frame, 0):
            dv = v[1].get(("$discr",)) if isinstance(v, tuple) and v and v[0] == "agg" else (v if tuple(path) == ("$discr",) else None)
            if dv is not None and dv[0] == "i" and dv[1] == (0, ()):
                okret.add(node if node[0] == e.entry_frame else (e.entry_frame, node[0][len(e.entry_frame)][3]))
    f.need(len(reads_), 1, "file read in fill")
    for x in reads_:
        # a failed read can only reach an Err return, so no outcome filter is needed
        r_ = gq.reachable(list(gq.succ.get(x.node, ())), avoid_nodes=pushn)
        lost = (r_ & okret) or (x.node in r_)
        f.ob(not lost, "read-piece-not-queued", "fill can return Ok (or read again) after a successful read without queueing what was read: "
             "a piece of the file - e.g. the empty final piece of a file whose size is a multiple of the chunk size - is lost", x.loc,
             sample={"read at": x.loc, "every Ok path queues the piece": not lost})
    for s in e.finals:
        if ret_discr(e, s) != 0:
            continue
        val = e.read(s, ("L", e.entry_frame, 0), (("v", 0), 0))
        eof = e.read(s, ("G",), ("eof",))
        if val[0] == "i" and not val[1][1]:
            if val[1][0] == 1:
                f.ob(eof[0] == "i" and s.ctx.entails_eq(eof[1], lin.const(0)), "fill-true-after-short-read", "fill can return true although a short chunk was queued",
                     sample={"returns": True, "short chunk queued": False})
    # sticky end of file across calls. First: whenever fill returns after a short chunk may have been queued (ghost eof not known
    # to be 0), it has recorded that fact - some bool field of the Window is known to be true in every such return state ...
    flag_fields = [pth for (pth, ti, nm) in world.struct_leaves(WINDOW) if prog.types[ti]["k"] == "bool"]
    short_rets = []
    for s in e.finals:
        eof = e.read(s, ("G",), ("eof",))
        if not (eof[0] == "i" and s.ctx.entails_eq(eof[1], lin.const(0))):
            short_rets.append(s)
    f.need(len(short_rets), 1, "return states of fill after a short chunk")
    latched = []
    for pth in flag_fields:
        vals = [e.read(s, self_root(e), tuple(pth)) for s in short_rets]
        if short_rets and all(v[0] == "i" and s.ctx.entails_eq(v[1], lin.const(1)) for v, s in zip(vals, short_rets)):
            latched.append(pth)
    f.ob(bool(latched), "short-chunk-not-latched",
         "fill can return after queueing a short chunk without having recorded the end of the file: the next fill() reads again and appends "
         "another piece after the short one", sample={"bool fields true at every return after a short chunk": len(latched)})
    # ... second: a run entered with exactly that record returns Ok(false) without reading or pushing
    sticky(world, f, fi, latched)
    # ---------------------------------------------------------------- remove / add
    r = rep.clause("C18.remove", "remove(k): fails without effect when k > len; otherwise drains exactly the k oldest")
    e = runs["remove"]
    k = e.read(e.finals[0], ("L", e.entry_frame, 2), ()) if e.finals else None
    len0 = lin.var(e.named(("len", self_root(e), fi["elements"]), None))
    r.need(len([s for s in e.finals if ret_discr(e, s) == 0]), 1, "Ok return of remove")
    r.need(len([s for s in e.finals if ret_discr(e, s) == 1]), 1, "Err return of remove")
    for s in e.finals:
        ln = e.read(s, self_root(e), fi["elements"] + ("$len",))
        if ret_discr(e, s) == 1:
            r.ob(s.ctx.entails(lin.lt(len0, k[1])), "remove-err-when-enough", "remove(k) can fail although k <= len", sample={"Err": "k > len"})
            r.ob(ln[0] == "i" and s.ctx.entails_eq(ln[1], len0), "remove-err-has-effect", "a failing remove changes the queue")
        else:
            r.ob(s.ctx.entails(lin.le(k[1], len0)), "remove-ok-when-short", "remove(k) can succeed although k > len")
            r.ob(ln[0] == "i" and s.ctx.entails_eq(ln[1], lin.sub(len0, k[1])), "remove-wrong-count", "a successful remove(k) does not shorten the queue by exactly k",
                 sample={"Ok": "len' == len - k"})
    drs = [x for x in e.events if base_name(x) == "std::collections::VecDeque::drain"]
    pops = [x for x in e.events if base_name(x) == "std::collections::VecDeque::pop_front"]
    wrong_end = [x for x in e.events if base_name(x) in ("std::collections::VecDeque::pop_back", "std::collections::VecDeque::truncate",
                                                         "std::collections::VecDeque::split_off", "std::collections::VecDeque::remove",
                                                         "std::collections::VecDeque::swap_remove_back", "std::collections::VecDeque::retain")]
    r.need(len(drs) + len(pops), 1, "removal from the front in remove (drain(0..k) or pop_front)")
    for x in wrong_end:
        r.ob(False, "remove-not-oldest", "remove takes chunks with %s: not the oldest ones" % base_name(x), x.loc)
    for x in drs:
        for (node_, st_, en_) in e.drain_log:
            if node_ != x.node:
                continue
            r.ob(st_ == (0, ()), "remove-not-oldest", "remove does not drain from the front (the oldest chunks)", x.loc,
                 sample={"drain range start": 0})
            r.ob(k is not None and en_ == k[1], "remove-range-end", "remove(k) does not drain exactly k chunks", x.loc)
    a = rep.clause("C18.add", "add(x): fails without effect when full; otherwise appends exactly x")
    e = runs["add"]
    len0 = lin.var(e.named(("len", self_root(e), fi["elements"]), None))
    a.need(len([s for s in e.finals if ret_discr(e, s) == 0]), 1, "Ok return of add")
    a.need(len([s for s in e.finals if ret_discr(e, s) == 1]), 1, "Err return of add")
    for s in e.finals:
        ln = e.read(s, self_root(e), fi["elements"] + ("$len",))
        sz = e.read(s, self_root(e), fi["size"])
        if ret_discr(e, s) == 1:
            a.ob(s.ctx.entails_eq(len0, sz[1]), "add-err-when-room", "add can fail although the window is not full", sample={"Err": "len == size"})
            a.ob(ln[0] == "i" and s.ctx.entails_eq(ln[1], len0), "add-err-has-effect", "a failing add changes the queue")
        else:
            a.ob(ln[0] == "i" and s.ctx.entails_eq(ln[1], lin.add(len0, lin.const(1))), "add-wrong-count", "a successful add does not append exactly one chunk",
                 sample={"Ok": "len' == len + 1"})
    ps = [x for x in e.events if base_name(x).startswith("std::collections::VecDeque::push")]
    a.need(len(ps), 1, "push in add")
    for x in ps:
        a.ob(base_name(x).endswith("push_back"), "add-not-at-back", "add does not append at the back", x.loc)
        arg = e.subtree(e.finals[0], ("L", e.entry_frame, 2), ()) if False else None
        v = x.args[1] if len(x.args) > 1 else None
        a.ob(isinstance(v, tuple) and v[0] == "t" and v[1] == ("init", ("L", e.entry_frame, 2), ()), "add-other-value", "add appends something else than its argument", x.loc,
             sample={"pushed": "the argument"})
    # ---------------------------------------------------------------- empty
    em = rep.clause("C18.empty", "empty: writes every element in order with write_all; clears only after success")
    C02.flush_contract(world, em)
    e = runs["empty"]
    for s in e.finals:
        ln = e.read(s, self_root(e), fi["elements"] + ("$len",))
        if ret_discr(e, s) == 0:
            em.ob(ln[0] == "i" and s.ctx.entails_eq(ln[1], lin.const(0)), "empty-leaves-elements", "a successful empty leaves elements in the buffer",
                  sample={"Ok": "len' == 0"})
    return rep


def single_sym_of(e_):
    return e_[1][0][0] if len(e_[1]) == 1 else None


def sticky(world, f, fi, latched=None):
    """fill entered with end-of-file already reached returns Ok(false) without reading or pushing"""
    prog = world.lib
    from analyzer.engine import ICONST
    eng = world.engine()
    flag_fields = [pth for (pth, ti, nm) in world.struct_leaves(WINDOW) if prog.types[ti]["k"] == "bool"]
    if latched is not None:
        flag_fields = [pth for pth in flag_fields if pth in latched]     # only what fill is known to have recorded

    def setup(e, st, fr):
        root = ("P", ("L", fr.id, 1), ())
        ln = e.read(st, root, fi["elements"] + ("$len",))
        sz = e.read(st, root, fi["size"])
        st.ctx.add(lin.le(ln[1], sz[1]))
        # the state a previous short read leaves behind: ghost eof = 1 and whatever the method recorded
        e.write(st, ("G",), ("eof",), ICONST(1))
        for pth in flag_fields:
            e.write(st, root, tuple(pth), ICONST(1))

    fr, finals = eng.run(WINDOW + "::fill", setup=setup, region="fn:" + WINDOW + "::fill")
    pushes = [x for x in eng.events if base_name(x).startswith("std::collections::VecDeque::push")]
    reads = [x for x in eng.events if "std::io::Read" in base_name(x)]
    f.ob(not pushes and not reads, "fill-after-eof-not-inert",
         "a fill() after the short chunk reads the file again / appends another (empty) chunk: the sequence of pieces does not end with the first short piece",
         sample={"second fill after EOF": {"reads": len(reads), "pushes": len(pushes)}})
    for s in finals:
        d = s.store.get(("L", fr.id, 0), {}).get(("$discr",))
        v = eng.read(s, ("L", fr.id, 0), (("v", 0), 0))
        if d is not None and d[1] == (0, ()):
            f.ob(v[0] == "i" and v[1] == (0, ()), "fill-after-eof-returns-true", "fill returns true after the end of the file was reached")
    if not flag_fields:
        f.ob(False, "no-eof-memory", "Window keeps no record that the short chunk has been handed out")
