"""Shared rule infrastructure: reports, findings, event queries, anchors."""
import json
import os

from analyzer import lin
from analyzer.facts import strip_generics
from analyzer.graph import Graph, ArgGraph, node_str


class Finding:
    def __init__(self, key, msg, site="", detail=None):
        self.key = key          # stable, no line numbers
        self.msg = msg
        self.site = site        # file:line for humans
        self.detail = detail or {}

    def to_json(self):
        return {"key": self.key, "message": self.msg, "site": self.site, "detail": self.detail}


class Clause:
    def __init__(self, cid, title):
        self.id = cid
        self.title = title
        self.findings = []
        self.instances = 0
        self.floor = 0
        self.obligations = 0
        self.discharged = 0
        self.samples = []
        self.notes = []
        self.nontrivial = set()

    def fail(self, key, msg, site="", detail=None):
        k = "%s %s" % (self.id, key)
        if any(f.key == k for f in self.findings):
            return
        self.findings.append(Finding(k, msg, site, detail))

    def ob(self, ok, key, msg, site="", sample=None, nontrivial=True):
        """one obligation of this clause: counted, and reported when not discharged"""
        self.obligations += 1
        if ok:
            self.discharged += 1
        else:
            self.fail(key, msg, site)
        if nontrivial:
            self.nontrivial.add(key)
        if sample is not None and len(self.samples) < 6:
            self.samples.append(sample)
        return ok

    def need(self, n, floor, what):
        """fail closed when a rule matched fewer instances than were counted by hand on the reference tree"""
        self.instances += n
        self.floor += floor
        if n < floor:
            self.fail("lost-instances %s" % what,
                      "rule matched %d instance(s) of %s, expected at least %d (anchor lost or code moved out of reach)"
                      % (n, what, floor))
            return False
        return True


class Report:
    def __init__(self, pid):
        self.pid = pid
        self.clauses = []
        self.level = "other"
        self.explanation = ""
        self.assumptions = []
        self.trusted_base = []
        self.analysed = {}

    def clause(self, cid, title):
        c = Clause(cid, title)
        self.clauses.append(c)
        return c

    def findings(self):
        out = []
        for c in self.clauses:
            out.extend(c.findings)
        return out


# ------------------------------------------------------------------ helpers over engine results
def short(path):
    return path.replace("tftpd::", "")


def base_name(ev):
    return strip_generics(ev.callee)


def events(eng, pred=None, region=None, inlined=None):
    out = []
    for e in eng.events:
        if region is not None and not e.region.startswith(region):
            continue
        if inlined is not None and e.inlined != inlined:
            continue
        if pred is None or pred(e):
            out.append(e)
    return out


def callee_is(*names):
    s = set(names)
    return lambda e: strip_generics(e.callee) in s


def callee_endswith(*sufs):
    return lambda e: any(strip_generics(e.callee).endswith(x) for x in sufs)


def graph_of(eng):
    g = getattr(eng, "_graph", None)
    if g is None:
        if getattr(eng, "arg_proj", None):
            g = ArgGraph(eng.edges, eng.nodes.keys(), eng.arg_proj, eng.arg_edges)
        else:
            g = Graph(eng.edges, eng.nodes.keys())
        eng._graph = g
    return g


def frame_fn(fid):
    last = fid[-1] if fid else None
    if isinstance(last, tuple) and len(last) > 1:
        return last[1]
    return "?"


def in_function(ev, suffix):
    """event located (directly) in a body whose path ends with suffix"""
    return ev.body.endswith(suffix)


def ctx_has(ev, fn_suffix):
    """event's call string passes through a function whose path ends with fn_suffix"""
    for f in ev.ctx:
        if isinstance(f, tuple) and len(f) > 1 and isinstance(f[1], str) and f[1].endswith(fn_suffix):
            return True
    return False


def term_contains(v, pred, depth=0):
    """does pred hold for some sub-term of value/term v?"""
    if depth > 40:
        return False
    try:
        if pred(v):
            return True
    except Exception:
        pass
    if isinstance(v, tuple):
        for x in v:
            if isinstance(x, (tuple, dict)) and term_contains(x, pred, depth + 1):
                return True
    elif isinstance(v, dict):
        for x in v.values():
            if isinstance(x, (tuple, dict)) and term_contains(x, pred, depth + 1):
                return True
    return False


def find_terms(v, pred, out=None, depth=0):
    if out is None:
        out = []
    if depth > 40:
        return out
    try:
        if pred(v):
            out.append(v)
    except Exception:
        pass
    if isinstance(v, tuple):
        for x in v:
            if isinstance(x, (tuple, dict)):
                find_terms(x, pred, out, depth + 1)
    elif isinstance(v, dict):
        for x in v.values():
            if isinstance(x, (tuple, dict)):
                find_terms(x, pred, out, depth + 1)
    return out


def is_app(name_suffix):
    return lambda t: isinstance(t, tuple) and len(t) >= 2 and t[0] == "app" and isinstance(t[1], str) and t[1].endswith(name_suffix)


def obligations(eng, region=None, body_pred=None):
    out = []
    for o in eng.obligations.values():
        if region is not None and not o.region.startswith(region):
            continue
        if body_pred is not None and not body_pred(o.body):
            continue
        out.append(o)
    return out


def ob_key(o):
    return "%s %s %s" % (o.kind, short(o.body), o.detail)


def arg_pointee(ev, i):
    """snapshot of what reference argument i pointed to at the call (dict relpath -> value) or None"""
    if i < len(ev.argsnap):
        return ev.argsnap[i]
    return None


def discr_of(snap):
    if snap is None:
        return None
    v = snap.get(("$discr",))
    if v is not None and v[0] == "i" and not v[1][1]:
        return v[1][0]
    return None


def variant_name(prog, adt, dv):
    a = prog.adts.get(adt)
    if a is None or dv is None:
        return None
    vi = prog.variant_by_discr(adt, dv)
    if vi is None:
        return None
    return a["variants"][vi]["name"]


def load_known(verif_dir):
    p = os.path.join(verif_dir, "known_findings.json")
    if not os.path.exists(p):
        return []
    with open(p) as f:
        return json.load(f)


# ------------------------------------------------------------------ outcome / error-propagation helpers
FAIL_OUTCOME = {
    "<std::slice::Iter<'a, T> as std::iter::Iterator>::position": 0,   # None
}


def failure_condition(eng, ev):
    """(symbol id, value) such that  symbol == value  means "this fallible call failed", or None"""
    site = (ev.ctx, ev.bb)
    sid = eng.sym_ids.get(("outcome", site))
    if sid is not None:
        return sid, FAIL_OUTCOME.get(base_name(ev), 1)
    r = ev.ret
    if isinstance(r, tuple) and r and r[0] == "t":
        sid = eng.sym_ids.get(("discr", r[1], ()))
        if sid is not None:
            return sid, 1
    return None


def state_has(st, sym, val):
    return st.ctx.entails_eq(lin.var(sym), lin.const(val))


def ret_discr(eng, st, path=()):
    d = st.store.get(("L", eng.entry_frame, 0), {})
    v = d.get(tuple(path) + ("$discr",))
    if v is not None and v[0] == "i" and not v[1][1]:
        return v[1][0]
    return None


def std_callee_audit(clause, eng, world, region=None, body_pred=None, what="region"):
    """every std callee reached in the region is classified; unclassified or documented-to-panic callees
    without a model/accepted reason are findings (fail closed)"""
    from analyzer.stdmodel import TOTAL, DOC_PANICS_ACCEPTED
    seen = {}
    for e in eng.events:
        if region is not None and not e.region.startswith(region):
            continue
        if body_pred is not None and not body_pred(e):
            continue
        if e.inlined or e.kind not in ("ext",):
            continue
        seen.setdefault(base_name(e), e)
    n = 0
    for name, e in sorted(seen.items()):
        n += 1
        cls = world.models.classify(name)
        info = world.lib.ext_fns.get(e.callee) or world.lib.ext_fns.get(name) or {}
        if cls == "unclassified":
            clause.ob(False, "unclassified-std-callee %s in %s" % (name, short(e.body)),
                      "std callee %s reached in %s has no model and is not known to be panic-free" % (name, what), e.loc)
            continue
        if info.get("doc_panics") and cls == "total" and name not in DOC_PANICS_ACCEPTED:
            clause.ob(False, "doc-panics-callee %s in %s" % (name, short(e.body)),
                      "std callee %s documents a panic and has no model" % name, e.loc)
            continue
        clause.ob(True, "std-callee %s" % name, "", nontrivial=False)
    return n


# ------------------------------------------------------------------ static MIR scans
def place_prefix_types(prog, body, place):
    """yield (type idx before projection elem i, elem) along a place"""
    ti = body.local_ty(place["l"])
    for pr in place["p"]:
        yield ti, pr
        if ti is None:
            continue
        t = prog.types[ti]
        if pr == "deref":
            if t["k"] in ("ref", "ptr"):
                ti = t["inner"]
            elif t["k"] == "adt" and t["path"] == "std::boxed::Box" and t["args"]:
                ti = t["args"][0]
            else:
                ti = None
        elif isinstance(pr, dict) and "f" in pr:
            ti = pr["ty"]
        elif isinstance(pr, dict) and "downcast" in pr:
            pass
        else:
            ti = t["inner"] if t["k"] in ("slice", "array") else None


def static_field_writes(prog, adt_path, field_idx):
    """all MIR assignments / call destinations / &mut borrows of field `field_idx` (an index, or a path of indices through
    nested private structs) of struct `adt_path` (closure captures included: a closure holding `&mut self.field` shows up
    as a &mut borrow)"""
    out = []
    fpath = tuple(field_idx) if isinstance(field_idx, (tuple, list)) else (field_idx,)
    for bp, b in prog.bodies.items():
        for bi, blk in enumerate(b.blocks):
            def touches(place):
                elems = list(place_prefix_types(prog, b, place))
                for k, (ti, pr) in enumerate(elems):
                    if isinstance(pr, dict) and "f" in pr and ti is not None and prog.types[ti]["k"] == "adt" and prog.types[ti]["path"] == adt_path:
                        got = tuple(x[1]["f"] for x in elems[k:k + len(fpath)] if isinstance(x[1], dict) and "f" in x[1])
                        # a write to the whole helper struct (a proper prefix of the path) also writes the field
                        if got == fpath[:len(got)] and (len(got) == len(fpath) or k + len(got) == len(elems)):
                            return True
                return False
            for st in blk["stmts"]:
                if st["k"] == "assign":
                    if touches(st["place"]):
                        out.append((bp, bi, "assign", b.loc(bi)))
                    rv = st["rv"]
                    if rv["k"] == "ref" and rv.get("mut") and touches(rv["place"]):
                        out.append((bp, bi, "&mut", b.loc(bi)))
            t = blk["term"]
            if t["k"] == "call" and touches(t["dest"]):
                out.append((bp, bi, "call-dest", b.loc(bi)))
    return out


def bool_call_true_edges(eng, ev):
    """for a call event whose result is a bool tested by a switchInt: the supergraph edges taken when it is true"""
    body = eng.prog.bodies[ev.body]
    blk = body.blocks[ev.bb]
    t = blk["term"]
    dest = t["dest"]
    if dest["p"]:
        return None
    cur = t.get("t")
    holders = set([dest["l"]])
    seen = set()
    while cur is not None and cur not in seen:
        seen.add(cur)
        b2 = body.blocks[cur]
        for st in b2["stmts"]:
            if st["k"] == "assign" and st["rv"]["k"] == "use":
                op = st["rv"]["op"]
                p = op.get("copy") or op.get("move")
                if p is not None and not p["p"] and p["l"] in holders and not st["place"]["p"]:
                    holders.add(st["place"]["l"])
        t2 = b2["term"]
        if t2["k"] == "switch":
            p = t2["op"].get("copy") or t2["op"].get("move")
            if p is not None and not p["p"] and p["l"] in holders:
                true_targets = [t2["otherwise"]] + [b for v, b in t2["targets"] if int(v) != 0]
                false_targets = [b for v, b in t2["targets"] if int(v) == 0]
                return {"switch": (ev.ctx, cur),
                        "true": [((ev.ctx, cur), (ev.ctx, b)) for b in true_targets if b not in false_targets],
                        "false": [((ev.ctx, cur), (ev.ctx, b)) for b in false_targets]}
            return None
        if t2["k"] == "goto":
            cur = t2["t"]
        else:
            return None
    return None


def event_at(eng, node):
    for e in eng.events:
        if e.node == node:
            return e
    return None


def field_sym(eng, root, path, rng=None):
    """symbol id of the lazily-initialised integer at a memory place (or None)"""
    return eng.sym_ids.get(("init", root, tuple(path)))


_ACTIVE = []
_CUTS = []     # one set per active evaluation: the rules whose (cyclic) re-evaluation was cut short while it ran


def run_rule(module, world, tier):
    """evaluate another property's rule on the same world (memoised per world). Rules re-use each other's clauses; when
    that makes a cycle (C02 re-uses a C09 clause, C09 re-uses a C02 clause) the inner request for a rule that is still being
    evaluated gets an empty report - the clause it asks for is being evaluated by the outer one anyway. A result computed
    under such cuts is only re-used where the same rules are being evaluated again (so that it would be cut the same way)."""
    cache = world.__dict__.setdefault("_rule_cache", {})
    key = (module.__name__, tier)
    for (cuts, r) in cache.get(key, ()):
        if cuts <= set(_ACTIVE):
            return r
    if module.__name__ in _ACTIVE:
        for s_ in _CUTS:
            s_.add(module.__name__)
        return Report(module.__name__.rsplit(".", 1)[-1])
    _ACTIVE.append(module.__name__)
    _CUTS.append(set())
    try:
        r = module.check(world, tier)
    finally:
        _ACTIVE.pop()
        cuts = _CUTS.pop()
    cuts.discard(module.__name__)
    cache.setdefault(key, []).append((frozenset(cuts), r))
    return r


def import_clause(world, tier, clause, module, cid, keys, what):
    """re-check clause `cid` of another property's rule and report its findings whose key contains one of `keys`
    (a shared structural clause that is a necessary condition of both properties)"""
    r = run_rule(module, world, tier)
    found = bool(module.__name__ in _ACTIVE)    # cut of a cycle: the outer evaluation of that rule covers the clause
    for cl in r.clauses:
        if cl.id == cid:
            found = True
            bad = [f_ for f_ in cl.findings if any(k in f_.key for k in keys)]
            for f_ in bad:
                clause.ob(False, "via " + f_.key, f_.msg, f_.site)
            clause.ob(not bad, "%s via %s" % (what, cid), "", sample={cid: ", ".join(keys)})
    if not found:
        clause.fail("anchor-lost clause %s" % cid, "shared clause %s not produced" % cid)


def field_ref_sinks(prog, adt_path, field_idx):
    """Who may touch a (private) field: interprocedural flow of references to `adt_path`.field_idx over the MIR of the
    whole crate. Sources: every borrow of a place that goes through the field. Flow: moves/copies/reborrows of such
    references, closure captures (the capturing closure's body is followed through its upvar), arguments of crate-local
    callees (followed into the callee's parameter), references returned by crate-local callees (followed into the
    caller's destination). Sinks: calls of non-local callees that receive such a reference; `<return>` marks a function
    that hands such a reference to its caller.
    Returns [(body path, callee base name or '<return>', loc, mutable borrow?, block)]"""
    tainted = {}      # body path -> {local: mutable?}
    upv = {}          # closure def -> {upvar index: mutable?}
    rets = {}         # body path -> mutable?  (returns a reference derived from the field)
    sinks = {}

    def through_field(b, place):
        for ti, pr in place_prefix_types(prog, b, place):
            if isinstance(pr, dict) and pr.get("f") == field_idx and ti is not None and prog.types[ti]["k"] == "adt" and prog.types[ti]["path"] == adt_path:
                return True
        return False

    def upvar_of(b, place):
        """index of the captured variable a place of a closure body goes through, if any"""
        if place["l"] != 1 or b.kind != "closure":
            return None
        for pr in place["p"]:
            if pr == "deref":
                continue
            if isinstance(pr, dict) and "f" in pr:
                return pr["f"]
            return None
        return None

    def only_upvar(place, u):
        return all(x == "deref" or (isinstance(x, dict) and x.get("f") == u) for x in place["p"])

    progress = True
    rounds = 0
    while progress and rounds < 50:
        progress = False
        rounds += 1
        for bp, b in prog.bodies.items():
            T = tainted.setdefault(bp, {})

            def mark(l, m):
                if l not in T or (m and not T[l]):
                    T[l] = bool(m) or T.get(l, False)
                    return True
                return False

            def operand_taint(op):
                pl = op.get("copy") or op.get("move")
                if pl is None:
                    return None
                if pl["l"] in T and not pl["p"]:
                    return T[pl["l"]]
                u = upvar_of(b, pl)
                if u is not None and u in upv.get(bp, {}) and only_upvar(pl, u):
                    return upv[bp][u]
                return None

            changed = True
            while changed:
                changed = False
                for bi, blk in enumerate(b.blocks):
                    for st in blk["stmts"]:
                        if st["k"] != "assign":
                            continue
                        rv = st["rv"]
                        dst = st["place"]
                        src_m = None
                        if rv["k"] == "ref":
                            pl = rv["place"]
                            if through_field(b, pl):
                                src_m = bool(rv.get("mut"))
                            elif pl["l"] in T and pl["p"][:1] == ["deref"]:
                                src_m = T[pl["l"]] and bool(rv.get("mut"))
                            else:
                                u = upvar_of(b, pl)
                                if u is not None and u in upv.get(bp, {}):
                                    src_m = upv[bp][u] and bool(rv.get("mut", True))
                        elif rv["k"] in ("use", "cast"):
                            src_m = operand_taint(rv["op"])
                        elif rv["k"] == "agg" and rv.get("ak", {}).get("t") == "closure":
                            cdef = rv["ak"]["def"]
                            for k, op in enumerate(rv.get("ops", [])):
                                m = operand_taint(op)
                                if m is not None:
                                    d = upv.setdefault(cdef, {})
                                    if k not in d or (m and not d[k]):
                                        d[k] = m
                                        progress = True
                        if src_m is not None and not dst["p"]:
                            if mark(dst["l"], src_m):
                                changed = True
                                progress = True
                    t = blk["term"]
                    if t["k"] == "call":
                        fn = t["fn"]
                        callee = fn.get("resolved") or fn.get("def", "?")
                        local = callee in prog.bodies and prog.bodies[callee].kind != "closure"
                        if local and callee in rets and not t["dest"]["p"]:
                            if mark(t["dest"]["l"], rets[callee]):
                                changed = True
                                progress = True
                        for i, a in enumerate(t["args"]):
                            m = operand_taint(a)
                            if m is None:
                                continue
                            if local:
                                ct = tainted.setdefault(callee, {})
                                if (i + 1) not in ct or (m and not ct[i + 1]):
                                    ct[i + 1] = m
                                    progress = True
                            else:
                                sinks[(bp, bi, i)] = (bp, strip_generics(callee), b.loc(bi), m, bi)
            if 0 in T and b.kind != "closure":
                if bp not in rets or (T[0] and not rets[bp]):
                    rets[bp] = T[0]
                    progress = True
                sinks[(bp, "ret")] = (bp, "<return>", b.loc(0), T[0], -1)
    return sorted(sinks.values(), key=repr)


def leaf_owner(prog, adt_path, path):
    """(struct that directly owns the leaf, field index) for a path of field indices through nested private structs"""
    cur = adt_path
    path = tuple(path)
    for k, i in enumerate(path[:-1]):
        t = prog.types[prog.adts[cur]["variants"][0]["fields"][i]["ty"]]
        if t["k"] != "adt" or t["path"] not in prog.adts:
            return None
        cur = t["path"]
    return (cur, path[-1]) if path else None


def leaf_type(prog, adt_path, path):
    o = leaf_owner(prog, adt_path, path)
    if o is None:
        return None
    return prog.adts[o[0]]["variants"][0]["fields"][o[1]]["ty"]


def const_reprs(prog, v):
    """evaluated values (rustc's rendering) of the crate's named constants a value refers to"""
    out = []
    for t in find_terms(v, lambda t: isinstance(t, tuple) and len(t) == 2 and t[0] == "const" and isinstance(t[1], str)):
        for k, c in prog.consts.items():
            if k.endswith("::" + t[1]) or k == t[1] or k.endswith(t[1]):
                if c.get("repr") is not None:
                    out.append(c["repr"])
                elif c.get("val") is not None:
                    out.append(str(c["val"]))
    return out


def predicate_accepts(world, fn_def, value):
    """does the predicate `fn_def` (a closure or a named fn taking one scalar) return true for `value` on every path?
    Decided by interpreting its body with the last parameter bound to the constant (whatever the shape of the test:
    ==, matches!, a range, a lookup in a constant array)."""
    from analyzer.engine import Engine, BudgetExceeded
    prog = world.lib
    body = prog.bodies.get(fn_def)
    if body is None or body.arg_count < 1:
        return False
    eng = Engine(prog, world.models)

    def setup(e, st, fr):
        e.write(st, ("L", fr.id, body.arg_count), (), ("i", lin.const(value)))
    try:
        fr, finals = eng.run(fn_def, setup=setup, region="fn:" + fn_def)
    except BudgetExceeded:
        return False
    if not finals:
        return False
    for st in finals:
        r = eng.read(st, ("L", fr.id, 0), (), body.local_ty(0))
        if not (isinstance(r, tuple) and r[0] == "i" and st.ctx.entails_eq(r[1], lin.const(1))):
            return False
    return True
