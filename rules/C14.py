"""C14 - Bundled client and server interoperate byte-exactly (client-side structure)."""
from analyzer import lin
from .common import *
from .workers import thread_regions, single_sym, WORKER

CLIENT = "tftpd::client::Client"
PACKET = "tftpd::packet::Packet"


def check(world, tier):
    prog = world.lib
    rep = Report("C14")
    rep.level = "other"
    rep.trusted_base = ["rustc nightly MIR of the lib built with feature `client` and of the tftpc binary", "provenance terms", "path queries on the inlined supergraph"]
    rep.explanation = ("Byte-identical files on both sides for all sizes and options is behaviour of two processes and is NOT decided. Decided (client side, each a "
                       "necessary condition): (a) the client's data phase is Worker::send / Worker::receive - the state machine analysed in C01/C02/C07/C08/C15 - and "
                       "no second implementation exists (no receive loop in the client itself); the shared worker/listener clauses those properties rest on are "
                       "re-checked; (b) after an OACK the worker is built from the values adopted from the OACK, after a plain ACK from the RFC defaults; "
                       "(c) download: connect(reply source) and ACK 0 to it precede the worker; upload: nothing is sent between the reply and the worker, which "
                       "does not wait for a reply to an OACK; (d) download target = join(receive_directory, file_name(requested path)), upload request name = "
                       "file_name(path), upload source = the path itself; (e) on an ERROR reply no worker, no file; tftpc prints the error.")
    if CLIENT + "::run" not in prog.bodies:
        c = rep.clause("C14.anchor", "anchor Client::run")
        c.fail("anchor-lost Client::run", "Client::run not found (feature client)")
        return rep
    eng = world.run("client")
    g = graph_of(eng)
    ev = [e for e in eng.events if e.region == "client"]
    rep.analysed = {"client events": len(ev), "regions": sorted(set(e.region for e in eng.events))}
    a = rep.clause("C14.a", "the client reuses Worker for both directions; shared state-machine clauses hold")
    b = rep.clause("C14.b", "the worker is built from the OACK's values (or the RFC defaults after a plain ACK)")
    c = rep.clause("C14.c", "handshake order")
    d = rep.clause("C14.d", "target names")
    e_ = rep.clause("C14.e", "a refusal creates nothing and is reported")
    spawns = [e for e in ev if base_name(e) == "std::thread::spawn"]
    kinds = {}
    for sp in spawns:
        cl = sp.args[0][1].get(("$closure",)) if isinstance(sp.args[0], tuple) and sp.args[0][0] == "agg" else None
        par = prog.bodies[cl[1][1]].parent if cl is not None and cl[1][1] in prog.bodies else ""
        kinds.setdefault("send" if par.endswith("::send") else "receive" if par.endswith("::receive") else "?", []).append(sp)
    a.ob("send" in kinds and "receive" in kinds, "client-uses-worker", "the client does not run Worker::send and Worker::receive (found %s)" % sorted(kinds),
         sample={"client data phase": sorted(kinds)})
    # no receive loop in the client's own frames
    for e in ev:
        if not e.inlined and base_name(e) in ("std::net::UdpSocket::recv_from", "std::net::UdpSocket::recv", "tftpd::socket::Socket::recv_with_size"):
            fid = e.ctx
            inloop = False
            cur_fid, cur_bb = e.ctx, e.bb
            while True:
                body = eng.frame_bodies.get(cur_fid)
                if body is not None and isinstance(cur_bb, int) and any(cur_bb in L for L in body.loops.values()):
                    inloop = True
                if len(cur_fid) <= 1:
                    break
                site = cur_fid[-1]
                cur_bb = site[3] if isinstance(site, tuple) and site[0] == "call" else None
                cur_fid = cur_fid[:-1]
            a.ob(not inloop, "client-own-receive-loop in %s" % short(e.body), "the client has a receive loop of its own (a second data-phase implementation)", e.loc)
    from . import C01, C02, C08, C15
    for (mod, ids) in ((C01, ("C01.a", "C01.b")), (C02, ("C02.a", "C02.b", "C02.f")), (C08, ("C08.d",)), (C15, ("C15.b",))):
        r = run_rule(mod, world, tier)
        for cl in r.clauses:
            if cl.id in ids:
                for f_ in cl.findings:
                    a.ob(False, "via " + f_.key, f_.msg, f_.site)
                a.ob(not cl.findings, "shared-clause %s" % cl.id, "", sample={cl.id: "%d/%d" % (cl.discharged, cl.obligations)})
    # ---------------------------------------------------------------- b
    fi_c = {k: tuple(v) for k, v in world.client_layout().items()}
    for need_ in ("blocksize", "windowsize", "receive_directory", "file_path"):
        if need_ not in fi_c:
            b.fail("anchor-lost Client.%s" % need_, "Client::new does not copy ClientConfig.%s into the Client" % need_)
            return rep
    self_root = ("P", ("L", eng.entry_frame, 1), ())
    news = [e for e in ev if e.inlined and base_name(e).endswith("worker::Worker::new")]
    b.need(len(set(e.node for e in news)), 2, "Worker::new call sites in the client")
    forms = {"blk": set(), "ws": set()}
    for e in news:
        for (argi, what, fld, dflt) in ((3, "blk", "blocksize", 512), (5, "ws", "windowsize", 1)):
            v = e.args[argi] if len(e.args) > argi else None
            if not (isinstance(v, tuple) and v[0] == "i"):
                forms[what].add("unknown")
                continue
            if not v[1][1]:
                forms[what].add("const %d" % v[1][0])
                continue
            s_ = single_sym(v[1])
            nm = eng.sym_names[s_] if s_ is not None else None
            if isinstance(nm, tuple) and nm[0] == "phi" and nm[3] == self_root and tuple(nm[4]) == fi_c[fld]:
                forms[what].add("adopted")       # value written by the loop over the OACK's options
            elif isinstance(nm, tuple) and nm[0] == "init" and nm[1] == self_root and tuple(nm[2]) == fi_c[fld]:
                forms[what].add("configured")    # the value the client asked for, never overwritten
            else:
                # truncation of an adopted value (windowsize: usize -> u16)
                forms[what].add("adopted" if ((isinstance(nm, str) and nm.startswith("trunc#")) or (isinstance(nm, tuple) and nm and nm[0] == "trunc")) else "other")
    for what, dflt in (("blk", 512), ("ws", 1)):
        b.ob("adopted" in forms[what], "oack-%s-ignored" % what, "no Worker is built from the %s of the server's OACK (forms: %s)" % (what, sorted(forms[what])),
             sample={what: sorted(forms[what])})
        b.ob("const %d" % dflt in forms[what], "ack-default-%s" % what, "after a plain ACK the worker does not use the RFC default %s = %d (forms: %s)" % (what, dflt, sorted(forms[what])),
             sample={what + " after plain ACK": dflt})
        b.ob(not (forms[what] - {"adopted", "const %d" % dflt}), "worker-%s-from-config" % what,
             "a Worker is built with a %s that is neither the OACK's value nor the RFC default (forms: %s)" % (what, sorted(forms[what])))
    # the values are adopted from the options of the received OACK: writes to the client's fields inside the loop over them
    adopt = [(node, path, v) for (node, root, path, old, v, cx) in eng.mem_writes if root == self_root and tuple(path) in (fi_c["blocksize"], fi_c["windowsize"])]
    b.need(len(adopt), 2, "assignments adopting OACK values")
    for (node, path, v) in adopt:
        if v[0] == "i" and not v[1][1]:
            continue  # defaults on the ACK path
        syms = [eng.sym_names[s] for s, _ in v[1][1]] if v[0] == "i" else []
        ok = any((isinstance(n, tuple) and n[0] == "init" and isinstance(n[1], tuple) and n[1][0] == "P" and isinstance(n[1][1], tuple) and n[1][1] and n[1][1][0] == "elem")
                 or (((isinstance(n, str) and n.startswith("trunc#")) or (isinstance(n, tuple) and n and n[0] == "trunc"))) for n in syms)
        b.ob(ok, "adopted-value-not-from-oack", "a client setting is overwritten with something that is not an option value of the received OACK",
             eng.frame_bodies[node[0]].loc(node[1]) if node[0] in eng.frame_bodies else "", sample={"adopted": "option.value of the OACK"})
    # ---------------------------------------------------------------- c
    conns = [e for e in ev if base_name(e) == "std::net::UdpSocket::connect"]
    c.need(len(set(e.node for e in conns)), 2, "connect to the reply's source (download, upload)")
    for e in conns:
        to = e.args[1] if len(e.args) > 1 else None
        c.ob(term_contains(to, lambda t: isinstance(t, tuple) and len(t) > 1 and t[1] == "peer_addr_of_datagram"), "connect-not-to-reply-source in %s" % short(e.body),
             "the client does not connect to the address the reply came from (the server's transfer port)", e.loc, sample={"connect": "source of the reply"})
    for kind, sps in kinds.items():
        for sp in sps:
            top = sp.ctx[:2]
            mine_conn = [x for x in conns if x.ctx[:2] == top]
            okc = any(g.dominated_by_node((eng.entry_frame, 0), sp.node, x.node) for x in mine_conn)
            c.ob(okc, "worker-before-connect %s" % kind, "the %s worker can start before the socket is connected to the server's transfer port" % kind, sp.loc)
            sends = [x for x in ev if x.inlined and base_name(x).endswith("socket::Socket>::send_to") and x.ctx[:2] == top]
            acks = []
            for x in sends:
                sn = arg_pointee(x, 1)
                if variant_name(prog, PACKET, discr_of(sn)) == "Ack":
                    acks.append(x)
            if kind == "receive":
                okk = any(g.dominated_by_node((eng.entry_frame, 0), sp.node, x.node) and any(g.dominated_by_node((eng.entry_frame, 0), x.node, y.node) for y in mine_conn) for x in acks)
                c.ob(okk, "download-without-ack0", "the download worker starts without ACK 0 having been sent (after connect) in reply to the OACK", sp.loc,
                     sample={"download": "connect, ACK 0, then Worker::receive"})
                for x in acks:
                    sn = arg_pointee(x, 1) or {}
                    vals = [v for k, v in sn.items() if len(k) == 2 and isinstance(k[0], tuple) and k[0][0] == "v" and v[0] == "i"]
                    c.ob(all(v[1] == (0, ()) for v in vals) and bool(vals), "download-ack-not-zero", "the acknowledgement of the OACK is not ACK 0", x.loc)
            else:
                c.ob(not acks, "upload-sends-ack", "the upload path sends an ACK before starting the sender", sp.loc, nontrivial=False)
    snds = [e for e in ev if e.inlined and base_name(e).endswith("worker::Worker::send")]
    c.need(len(set(e.node for e in snds)), 1, "Worker::send in the client")
    for e in snds:
        v = e.args[1] if len(e.args) > 1 else None
        c.ob(isinstance(v, tuple) and v[0] == "i" and v[1] == (0, ()), "upload-waits-for-oack-reply", "the uploading client makes its sender wait for a reply to an OACK it never sent", e.loc,
             sample={"Worker::send(check_response)": False})
    # ---------------------------------------------------------------- d
    for e in news:
        p_ = e.args[1] if len(e.args) > 1 else None
        top = e.ctx[:2]
        is_dl = any(sp.ctx[:2] == top for sp in kinds.get("receive", []))
        is_ul = any(sp.ctx[:2] == top for sp in kinds.get("send", []))
        joined = term_contains(p_, is_app("std::path::Path::join"))
        if joined:
            j = find_terms(p_, is_app("std::path::Path::join"))[0]
            a0, a1 = j[3][0], j[3][1]
            ok = term_contains(a1, is_app("std::path::Path::file_name")) and \
                (term_contains(a0, lambda t: isinstance(t, tuple) and t and t[0] == "init" and t[1] == self_root and tuple(t[2]) == fi_c["receive_directory"]) or
                 (isinstance(a0, tuple) and a0[0] in ("r", "ref")))
            d.ob(ok, "download-target", "the download is not stored as <receive-directory>/<file name of the requested path>", e.loc,
                 sample={"download target": "join(receive_directory, file_name(file_path))"})
        else:
            ok = isinstance(p_, tuple) and p_[0] == "t" and isinstance(p_[1], tuple) and p_[1][0] == "init" and p_[1][1] == self_root and tuple(p_[1][2]) == fi_c["file_path"]
            d.ob(ok, "upload-source", "the upload does not read the configured file path", e.loc, sample={"upload source": "file_path"})
    forms_seen = set("join" if term_contains(e.args[1], is_app("std::path::Path::join")) else "plain" for e in news if len(e.args) > 1)
    d.ob(forms_seen == {"join", "plain"}, "both-target-forms", "download/upload target forms found: %s" % sorted(forms_seen), nontrivial=False)
    # request file names
    reqs = [x for x in ev if x.inlined and base_name(x).endswith("socket::Socket>::send_to")]
    for x in reqs:
        sn = arg_pointee(x, 1)
        vn = variant_name(prog, PACKET, discr_of(sn))
        if vn == "Wrq":
            vi = [i for i, v in enumerate(prog.adts[PACKET]["variants"]) if v["name"] == "Wrq"][0]
            fn = sn.get((("v", vi), 0))
            d.ob(term_contains(fn, is_app("std::path::Path::file_name")), "upload-request-name", "the WRQ does not carry the file name (basename) of the uploaded path", x.loc,
                 sample={"WRQ filename": "file_name(file_path)"})
    # ---------------------------------------------------------------- e
    recvs = [x for x in ev if not x.inlined and base_name(x) == "std::net::UdpSocket::recv_from"]
    e_.need(len(set(x.node for x in recvs)), 2, "reply receives (download, upload)")
    vi_err = [i for i, v in enumerate(prog.adts[PACKET]["variants"]) if v["name"] == "Error"][0]
    err_discr = prog.variant_discr(PACKET, vi_err)
    err_edges = set()
    for edge, conds in eng.edge_conds.items():
        if edge[0][0][:1] != eng.entry_frame[:1] or len(edge[0][0]) != 2:
            continue
        for cnd in conds:
            if cnd[0] == "const" and cnd[1] == err_discr:
                # constant discriminant switch of the decoded reply inside download()/upload()
                body = eng.frame_bodies.get(edge[0][0])
                err_edges.add(edge)
    # the Error arm: the edge whose target formats "Client received error from server"
    arms = []
    for x in ev:
        if base_name(x) == "std::fmt::format" or base_name(x).endswith("Box<(dyn std::error::Error + 'a)>>::from"):
            pass
    bad = []
    for edge in err_edges:
        r = g.reachable([edge[1]], stop_at=[(edge[0][0], "ret")])
        effects = [x for x in ev if x.node in r and not x.inlined and (base_name(x) in ("std::thread::spawn", "std::fs::File::create", "std::fs::File::open", "std::fs::remove_file")
                                                                       or base_name(x).endswith("worker::Worker::new"))]
        if not effects:
            arms.append(edge)
    e_.ob(len(arms) >= 2, "refusal-has-effect", "no effect-free ERROR arm in download()/upload(): after an ERROR reply the client may still create files or start a worker",
          sample={"ERROR arms without spawn/fs": len(arms)})
    # the client's own thread creates, truncates or removes nothing: the only file the download touches is created by the
    # receive worker, which is started after the server's first non-ERROR reply
    MUT_FS = ("std::fs::File::create", "std::fs::File::create_new", "std::fs::OpenOptions::open", "std::fs::remove_file", "std::fs::write",
              "std::fs::create_dir", "std::fs::create_dir_all", "std::fs::rename", "std::fs::copy", "std::fs::remove_dir", "std::fs::remove_dir_all")
    for x in ev:
        if x.region == "client" and not x.inlined and base_name(x) in MUT_FS:
            e_.ob(False, "client-thread-touches-files %s in %s" % (base_name(x), short(x.body)),
                  "the client calls %s on its own thread (before / independently of the server's reply): a refused request leaves or destroys a local file" % base_name(x), x.loc)
    bn = world.bins.get("tftpc.bin")
    if bn is not None:
        prints = 0
        for bp, bdy in bn.bodies.items():
            for blk in bdy.blocks:
                t = blk["term"]
                if t["k"] == "call" and strip_generics(t["fn"].get("def", "")).endswith("std::io::_eprint"):
                    prints += 1
        e_.ob(prints >= 1, "client-error-not-reported", "tftpc does not print the error returned by Client::run", sample={"eprintln in tftpc": prints})
    else:
        e_.fail("anchor-lost tftpc", "tftpc binary facts missing")
    # interoperation for every option choice also needs: a truncating sink (C02.d), payload bound = block size + header (C02.e), and a
    # server that uses exactly the values it acknowledged (C09.c / C09.d)
    from . import C09
    x14 = rep.clause("C14.f", "both ends agree on what was negotiated and on what a block is (shared with C02.d/e, C09.c/d)")
    import_clause(world, tier, x14, C02, "C02.d", ("",), "truncating sink")
    import_clause(world, tier, x14, C02, "C02.e", ("",), "payload bound")
    import_clause(world, tier, x14, C09, "C09.c", ("",), "server uses the acknowledged values")
    import_clause(world, tier, x14, C09, "C09.d", ("",), "only honourable values are acknowledged")
    return rep
