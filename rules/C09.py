"""C09 - Option negotiation: OACK is truthful and the transfer uses exactly its values."""
from analyzer import lin
from .common import *
from .listener import *
from .workers import region_for, env_field, env_param_path, single_sym, WORKER

OPTIONTYPE = "tftpd::packet::OptionType"
TRANSFEROPTION = "tftpd::packet::TransferOption"
RANGES = {"BlockSize": (8, 65464), "Timeout": (1, None), "Windowsize": (1, 65535)}   # the property fixes only the lower bound of timeout


def check(world, tier):
    prog = world.lib
    rep = Report("C09")
    rep.level = "other"
    rep.trusted_base = ["rustc nightly MIR", "abstract interpreter: per-iteration facts at the back edge of the option loop, thread-entry preconditions",
                        "ghost monitors handshake / reply", "provenance of Worker::new arguments"]
    rep.explanation = ("Decided: (a) the handshake reply is an OACK exactly when the request's option list is non-empty (else ACK 0 for a write, nothing for a "
                       "read), the OACK is a copy of the handler's option list, the decoder keeps only option names recognised after lower-casing; (b) the only "
                       "store into an echoed option value is tsize := metadata length on a read request; (c) the worker is built from exactly the parsed values "
                       "(option value -> WorkerOptions field without arithmetic -> Worker::new / set_read_timeout -> worker fields -> Window size, receive buffer, "
                       "short-block test, time-out test); (d) at the back edge of the option loop every visited option is in range (blksize 8..=65464, timeout "
                       ">= 1, windowsize 1..=65535) or the function has returned Err, and the worker threads start under exactly these bounds; (e) with no "
                       "options the worker gets 512 / 1 / 5 s. NOT decided: what a peer observes (burst lengths, delays).")
    eng = world.run("listen")
    L = Listener(world, eng)
    a = rep.clause("C09.a", "OACK iff the request carries a recognised option; OACK echoes the handler's list")
    b = rep.clause("C09.b", "echo is truthful: only tsize of a read request is rewritten (to the file's size)")
    c = rep.clause("C09.c", "the transfer uses exactly the acknowledged values")
    d = rep.clause("C09.d", "values that cannot be honoured are never acknowledged")
    e_ = rep.clause("C09.e", "RFC 1350 defaults when nothing was acknowledged")
    rep.analysed = {"listener events": len(L.events)}
    # ---------------------------------------------------------------- locate the option loop through Worker::new's arguments
    news = [e for e in L.events if e.inlined and base_name(e).endswith("worker::Worker::new")]
    c.need(len(set(e.node for e in news)), 2, "Worker::new call sites")
    fi_w = {f["name"]: i for i, f in enumerate(prog.adts[WORKER]["variants"][0]["fields"])}
    loops = set()
    wo_roots = {}
    for e in news:
        for (argi, what) in ((3, "blk_size"), (5, "windowsize")):
            v = e.args[argi] if len(e.args) > argi else None
            s_ = single_sym(v[1]) if isinstance(v, tuple) and v[0] == "i" else None
            nm = eng.sym_names[s_] if s_ is not None else None
            ok = isinstance(nm, tuple) and nm[0] == "phi" and len(nm) == 5
            c.ob(ok, "worker-%s-not-from-options in %s" % (what, short(e.body)),
                 "Worker::new's %s is not the value produced by the option loop (e.g. a default constant or an expression of it)" % what, e.loc,
                 sample={"Worker::new %s" % what: "value parsed from the options" if ok else repr(v)[:60]})
            if ok:
                loops.add((nm[1], nm[2]))
                wo_roots.setdefault((nm[1], nm[2]), {})[what] = (nm[3], nm[4])
        # timeout: Duration value; same term as given to set_read_timeout (checked in C07.a) and a phi of the same loop
        v = e.args[4] if len(e.args) > 4 else None
        ok = isinstance(v, tuple) and v[0] == "t" and isinstance(v[1], tuple) and v[1][0] == "phi"
        c.ob(ok, "worker-timeout-not-from-options in %s" % short(e.body), "Worker::new's timeout is not the value produced by the option loop", e.loc)
        if ok:
            loops.add((v[1][1], v[1][2]))
            wo_roots.setdefault((v[1][1], v[1][2]), {})["timeout"] = (v[1][3], v[1][4])
    d.need(len(loops), 2, "option loops (one per handler)")
    ot = prog.adts[OPTIONTYPE]
    kinds = {prog.variant_discr(OPTIONTYPE, i): v["name"] for i, v in enumerate(ot["variants"])}
    to = prog.adts[TRANSFEROPTION]["variants"][0]["fields"]
    fi_opt = [f["name"] for f in to].index("option")
    fi_val = [f["name"] for f in to].index("value")
    # ---------------------------------------------------------------- d: per-iteration ranges at the back edge
    elem_roots = set()
    for nm in eng.sym_ids:
        if isinstance(nm, tuple) and nm and nm[0] == "discr" and isinstance(nm[1], tuple) and nm[1][0] == "P" and isinstance(nm[1][1], tuple) \
                and nm[1][1] and nm[1][1][0] == "elem" and tuple(nm[2]) == (fi_opt,):
            elem_roots.add(nm[1])
    seen_kinds = {}
    for (fid, h) in sorted(loops, key=repr):
        backs = eng.loop_backs.get((fid, h), [])
        d.need(len(backs), 3, "back-edge states of the option loop")
        mine = [r for r in elem_roots if r[1][1][0][:len(fid)] == fid]
        for s_ in backs:
            for r in mine:
                dsym = eng.sym_ids.get(("discr", r, (fi_opt,)))
                if dsym is None:
                    continue
                for dv, kn in kinds.items():
                    if not s_.ctx.entails_eq(lin.var(dsym), lin.const(dv)):
                        continue
                    seen_kinds.setdefault((fid, h), set()).add(kn)
                    if kn not in RANGES:
                        continue
                    lo, hi = RANGES[kn]
                    vs = eng.sym_ids.get(("init", r, (fi_val,)))
                    val = ("i", lin.var(vs), None) if vs is not None else ("t", None)
                    ok = val[0] == "i" and s_.ctx.entails(lin.le(lin.const(lo), val[1])) and (hi is None or s_.ctx.entails(lin.le(val[1], lin.const(hi))))
                    d.ob(ok, "option-out-of-range-continues %s in %s" % (kn, short(frame_fn(fid))),
                         "the option loop continues (and the option is later acknowledged) with a %s value outside %s..%s" % (kn, lo, hi if hi is not None else ""),
                         sample={"option": kn, "after its iteration": "%s <= value%s" % (lo, " <= %s" % hi if hi is not None else "")})
        for kn in RANGES:
            d.ob(kn in seen_kinds.get((fid, h), ()), "option-kind-not-handled %s in %s" % (kn, short(frame_fn(fid))),
                 "no iteration of the option loop handles %s" % kn, nontrivial=False)
        # c(1): inside the loop the worker settings are the option values themselves (no arithmetic)
        body_nodes = set(n for n in L.g.succ if n[0] == fid or (len(n[0]) > len(fid) and n[0][:len(fid)] == fid))
        for what, (root, path) in wo_roots.get((fid, h), {}).items():
            for (node, wr, wp, v) in eng.writes_log:
                if wr != root or tuple(wp[:len(path)]) != tuple(path) or node[0] != fid:
                    continue
                body = eng.frame_bodies[fid]
                if node[1] not in body.loops.get(h, ()):
                    continue
                if what == "timeout":
                    continue
                s1 = single_sym(v[1]) if isinstance(v, tuple) and v[0] == "i" else None
                nm = eng.sym_names[s1] if s1 is not None else None
                ok = isinstance(nm, tuple) and nm[0] == "init" and nm[1] in elem_roots and tuple(nm[2]) == (fi_val,)
                c.ob(ok, "setting-not-option-value %s in %s" % (what, short(frame_fn(fid))),
                     "the %s given to the worker is not the option's value as echoed in the OACK (it is %s)" % (what, lin.show(v[1]) if isinstance(v, tuple) and v[0] == "i" else repr(v)[:40]),
                     eng.frame_bodies[fid].loc(node[1]), sample={"setting": what, "assigned": "the option's value"})
    # thread entry preconditions
    for clos, te in eng.thread_entries.items():
        pre = eng.thread_pre.get((("spawn", clos),), [])
        from analyzer.lin import Ctx
        cx = Ctx(eng.ranges)
        for q in pre:
            cx.add(q)
        R = region_for(world, eng, "::send" if prog.bodies[clos].parent.endswith("::send") else "::receive")
        u = None
        from .workers import worker_upvar
        u = worker_upvar(R) if R is not None else None
        for fname, (lo, hi) in (("blk_size", (8, 65464)), ("windowsize", (1, 65535))):
            pth = env_param_path(R, fname) if R is not None else None
            sid = eng.sym_ids.get(("env", clos, pth)) if pth is not None else None
            ok = sid is not None and cx.entails(lin.le(lin.const(lo), lin.var(sid))) and cx.entails(lin.le(lin.var(sid), lin.const(hi)))
            d.ob(ok, "worker-starts-with-unbounded-%s %s" % (fname, short(clos)),
                 "a worker can start with %s outside %d..=%d (the value was acknowledged in the OACK)" % (fname, lo, hi),
                 sample={"worker": short(clos), fname: "%d..=%d at thread entry" % (lo, hi)})
        pth = env_param_path(R, "timeout") if R is not None else None
        sid = eng.sym_ids.get(("env", clos, pth + ("$secs",))) if pth is not None else None
        ok = sid is not None and cx.entails(lin.le(lin.const(1), lin.var(sid)))
        d.ob(ok, "worker-starts-with-zero-timeout %s" % short(clos), "a worker can start with a zero retransmission timeout",
             sample={"worker": short(clos), "timeout secs": ">= 1 at thread entry"})
    # the acknowledged values can actually be honoured: no panic obligation of the worker threads that depends on them is open
    for o in eng.obligations.values():
        if o.region.startswith("thread:") and o.kind in ("duration-add", "instant-sub", "alloc", "assert", "range", "index"):
            d.ob(o.proven, "acknowledged-value-crashes-worker %s in %s" % (o.kind, short(o.body)),
                 "a negotiated value that was acknowledged makes the worker thread panic: %s (%s)" % (o.detail, o.residual), o.loc,
                 sample={"worker obligation": o.kind + " " + o.detail, "in": short(o.body), "proven": o.proven})
    # ---------------------------------------------------------------- a: handshake
    gh = [o for o in eng.obligations.values() if o.kind == "ghost:handshake"]
    a.need(len(gh), 2, "handshake replies monitored")
    for o in gh:
        a.ob(o.proven, "handshake %s in %s" % (o.detail.split(":")[0], short(o.body)), o.residual, o.loc,
             sample={"handshake reply": o.detail, "proven": o.proven})
    # at the end of an accepting iteration: reply sent iff required
    kinds_pk = {v["name"]: i + 1 for i, v in enumerate(prog.adts[PACKET]["variants"])}
    backs = eng.loop_backs.get(L.head, []) if L.head else []
    head_state = eng.loop_heads.get(L.head)
    n_acc = 0
    for s_ in backs:
        g_ = s_.store.get(("G",), {})
        sp, kd, ol, rp = g_.get(("spawned",)), g_.get(("kind",)), g_.get(("optlen",)), g_.get(("reply",))
        if not (sp is not None and sp[0] == "i" and s_.ctx.entails_eq(sp[1], lin.const(1))):
            continue
        n_acc += 1
        is_r = kd is not None and s_.ctx.entails_eq(kd[1], lin.const(kinds_pk["Rrq"]))
        empty = ol is not None and ol[0] == "i" and s_.ctx.entails_eq(ol[1], lin.const(0))
        nonempty = ol is not None and ol[0] == "i" and s_.ctx.entails(lin.le(lin.const(1), ol[1]))
        if is_r and empty:
            hv = eng.read(head_state, ("G",), ("reply",)) if head_state is not None else None
            okn = rp is not None and hv is not None and rp == hv
            a.ob(okn, "reply-to-optionless-rrq", "a read request without options is answered by something else than DATA 1 from the worker",
                 sample={"RRQ without options": "no handshake reply"})
        else:
            okp = rp is not None and rp[0] == "i" and s_.ctx.entails_eq(rp[1], lin.const(50))
            a.ob(okp and (empty or nonempty), "handshake-missing", "an accepted request (write, or with options) gets no OACK / ACK 0",
                 sample={"accepted request": "handshake reply sent"})
    a.need(n_acc, 3, "accepting iterations of the listen loop")
    decoder_clause(world, a)
    # ---------------------------------------------------------------- b: echo
    handler_kind = {}
    for e in L.events:
        if base_name(e) == "std::thread::spawn":
            cl = e.args[0][1].get(("$closure",)) if isinstance(e.args[0], tuple) and e.args[0][0] == "agg" else None
            par = prog.bodies[cl[1][1]].parent if cl is not None and cl[1][1] in prog.bodies else ""
            handler_kind[e.ctx[:2]] = "read" if par.endswith("::send") else "write"
    nw = 0
    for (node, root, path, old, new, cx) in eng.mem_writes:
        if not (root in elem_roots and tuple(path) == (fi_val,)):
            continue
        nw += 1
        hk = handler_kind.get(node[0][:2])
        is_len = new[0] == "i" and term_contains(tuple(eng.sym_names[s] for s, _ in new[1][1]), is_app("std::fs::Metadata::len"))
        b.ob(hk == "read" and is_len, "option-value-rewritten in %s" % short(frame_fn(node[0])),
             "an option value that will be echoed in the OACK is overwritten with something else than the file size on a read request",
             eng.frame_bodies[node[0]].loc(node[1]) if node[0] in eng.frame_bodies else "",
             sample={"rewritten": "tsize := metadata.len()", "request": hk})
    b.need(nw, 1, "rewrite of tsize on a read request")
    # ---------------------------------------------------------------- c(3): worker side uses the fields
    from . import C08, C02, C04, C07
    for (mod, cid, keys) in ((C08, "C08.a", ("size-is-windowsize",)), (C02, "C02.e", ("",)), (C04, "C04.a", ("timeout-operand",)),
                             (C07, "C07.a", ("read-timeout-before-worker", "read-timeout-not-stored", "channel-wait-unbounded"))):
        r = run_rule(mod, world, tier)
        for cl in r.clauses:
            if cl.id == cid:
                bad = [f_ for f_ in cl.findings if any(k in f_.key for k in keys)]
                for f_ in bad:
                    c.ob(False, "via " + f_.key, f_.msg, f_.site)
                c.ob(not bad, "worker-uses-negotiated-value via %s" % cid, "", sample={cid: ", ".join(keys)})
    # ---------------------------------------------------------------- e: defaults
    for (fid, h) in sorted(loops, key=repr):
        for what, (root, path) in wo_roots.get((fid, h), {}).items():
            inits = [v for (node, wr, wp, v) in eng.writes_log if wr == root and node[0] == fid and node[1] not in eng.frame_bodies[fid].loops.get(h, ())
                     and (tuple(wp) == () or tuple(wp[:len(path)]) == tuple(path))]
            want = {"blk_size": 512, "windowsize": 1}.get(what)
            okd = False
            for v in inits:
                if isinstance(v, tuple) and v[0] == "agg":
                    fv = v[1].get(tuple(path))
                    if what == "timeout":
                        tv = v[1].get(tuple(path) + ("$secs",))
                        okd = okd or (isinstance(tv, tuple) and tv[0] == "i" and tv[1] == (5, ()))
                    elif fv is not None and fv[0] == "i" and fv[1] == (want, ()):
                        okd = True
            e_.ob(okd, "default-%s in %s" % (what, short(frame_fn(fid))), "without options the worker's %s is not the RFC 1350 default" % what,
                  sample={"default " + what: want if want else "5 s"})
    e_.need(sum(len(wo_roots.get(lp, {})) for lp in loops), 3, "loop-carried option values with a default (blk_size, windowsize, timeout)")
    return rep


def decoder_clause(world, a):
    """the decoder pushes an option only for a name recognised after lower-casing"""
    prog = world.lib
    ed = world.run("fn:tftpd::packet::Packet::deserialize")
    # options enter the list through Vec::push(option) or through Vec::extend(<Option<TransferOption>>) (Some(option) appends it)
    pushes = [e for e in ed.events if base_name(e) == "std::vec::Vec::push" or
              (base_name(e).endswith("std::iter::Extend<T>>::extend") and len(e.args) > 1 and isinstance(e.args[1], tuple) and e.args[1][0] == "agg"
               and e.args[1][1].get(("$discr",)) is not None)]
    a.need(len(set(e.node for e in pushes)), 2, "option pushes in the decoder (requests, OACK)")
    for e in pushes:
        v = e.args[1] if len(e.args) > 1 else None
        opt = v[1].get((0, "$discr")) if isinstance(v, tuple) and v[0] == "agg" else None
        if opt is None and isinstance(v, tuple) and v[0] == "agg" and v[1].get(("$discr",)) is not None:
            if v[1][("$discr",)][1] == (0, ()):
                continue   # extend(None): nothing is appended
            opt = v[1].get((("v", 1), 0, 0, "$discr"))
        a.ob(opt is not None and opt[0] == "i" and not opt[1][1], "unrecognised-option-kept in %s" % short(e.body),
             "the decoder keeps an option whose name was not recognised", e.loc, sample={"pushed option": "recognised kind"})
    froms = [e for e in ed.events if e.inlined and base_name(e).endswith("as std::str::FromStr>::from_str") and "OptionType" in base_name(e)]
    a.need(len(set(e.node for e in froms)), 2, "option-name lookups in the decoder")
    # unknown options are IGNORED: the value of an option is parsed as a number only after its name was recognised, so a
    # non-numeric value of an unknown option cannot make the whole request undecodable
    from .workers import Region
    from .C13 import result_switch
    Rd = Region(world, ed, "fn:tftpd::packet::Packet::deserialize")
    parses = [e for e in ed.events if not e.inlined and base_name(e) == "core::str::<impl str>::parse"]
    a.need(len(set(e.node for e in parses)), 2, "numeric parses of option values in the decoder")
    for pe in parses:
        lc = Rd.loops_containing(pe.node)
        if not lc:
            a.ob(False, "option-value-parse-outside-loop in %s" % short(pe.body), "an option value is parsed outside the option loop", pe.loc)
            continue
        lp = lc[0]
        ln = Rd.loop_nodes(*lp)
        ok_edges = set()
        for fe in froms:
            if fe.node in ln:
                sw = result_switch(Rd, fe.node)
                ok_edges |= set(sw.get(0, []))
        outside = set(Rd.g.succ) - ln
        dominated = bool(ok_edges) and pe.node not in Rd.g.reachable([lp], avoid_edges=ok_edges, avoid_nodes=outside)
        if not dominated:
            # the lookup's result may be consumed by combinators (`.ok().map(|name| value.parse() ..)`) instead of a match: on the
            # abstract reachability graph the states that left the lookup through its Err return must not reach the parse
            # within the iteration, and the lookup must come first
            err_rets, ok_rets = set(), set()
            for fe in froms:
                if fe.node in ln:
                    for fid_ in ed.frame_bodies:
                        if len(fid_) == len(fe.ctx) + 1 and fid_[:len(fe.ctx)] == fe.ctx and fid_[-1][0] == "call" and fid_[-1][3] == fe.bb and \
                                str(fid_[-1][1]).endswith("as std::str::FromStr>::from_str"):
                            err_rets |= set(Rd.ret_nodes(fid_, 1))
                            ok_rets |= set(Rd.ret_nodes(fid_, 0))
            if err_rets and ok_rets:
                unrec = Rd.g.reachable(sorted(err_rets, key=repr), avoid_nodes=set([lp]) | outside)
                first = pe.node not in Rd.g.reachable([lp], avoid_nodes=set(fe.node for fe in froms if fe.node in ln) | outside)
                dominated = pe.node not in unrec and first and pe.node in Rd.g.reachable(sorted(ok_rets, key=repr), avoid_nodes=set([lp]) | outside)
        a.ob(dominated, "unknown-option-value-parsed in %s" % short(pe.body),
             "the value of an option is parsed as a number before (or without) its name having been recognised: an unknown option with a non-numeric "
             "value makes the whole request undecodable instead of being ignored", pe.loc,
             sample={"parse at": pe.loc, "dominated by": "OptionType::from_str(name) is Ok (same iteration)"})
    for e in froms:
        snap = arg_pointee(e, 0)
        ok = term_contains(e.args[0], is_app("std::str::<impl str>::to_lowercase")) or (snap is not None and term_contains(snap, is_app("std::str::<impl str>::to_lowercase")))
        a.ob(ok, "option-name-case-sensitive in %s" % short(e.body), "option names are not lower-cased before the lookup", e.loc,
             sample={"lookup argument": "to_lowercase(name)"})
