"""C12 - Concurrent transfers are isolated; datagrams are demultiplexed by endpoint."""
from analyzer import lin
from .common import *
from .listener import *
from .workers import region_for, thread_regions, WORKER

SERVERSOCKET = "tftpd::socket::ServerSocket"


def check(world, tier):
    prog = world.lib
    rep = Report("C12")
    rep.level = "other"
    rep.trusted_base = ["rustc nightly MIR", "provenance terms of the abstract interpreter", "ghost monitors kind / routed / reply at the listen loop's back edge",
                        "kernel: a connect()ed UDP socket only receives from its peer; try_clone shares the port"]
    rep.explanation = ("Interleavings are handled by NON-INTERFERENCE: (a) there is no shared mutable transfer state - no static, Worker owns its socket and path "
                       "(private fields), spawned closures capture no reference, Arc or Rc; transfers can therefore interact only through the listening socket, "
                       "their channel and the filesystem; (b) single-port: the routing key inserted, the remote of the per-transfer socket and the requester are "
                       "the same value, the registered Sender belongs to that socket, registration happens only in single-port mode, dispatch indexes the table "
                       "with the source of the datagram being dispatched (behind contains_key) and forwards that datagram; the channel-backed socket sends "
                       "through its clone of the listening socket to its own remote and reads only its own channel; the listener's receive buffer never "
                       "shrinks; (c) multi-port: bind(local ip, port 0) then connect(requester) on every Ok path; (d) every non-request packet that is not "
                       "routed to an owner ends its iteration with ERROR IllegalOperation. NOT decided: per-client byte streams under concrete interleavings.")
    eng = world.run("listen")
    L = Listener(world, eng)
    a = rep.clause("C12.a", "no shared mutable transfer state")
    b = rep.clause("C12.b", "single-port routing: key == remote == requester; dispatch by source; buffer never shrinks")
    c = rep.clause("C12.c", "multi-port: fresh port, connected to the requester")
    d = rep.clause("C12.d", "stray non-request packets are answered with ERROR 4")
    rep.analysed = {"listener events": len(L.events), "statics": len(prog.statics)}
    # ---------------------------------------------------------------- a
    for s_ in prog.statics:
        a.ob(not s_["mut"] and s_.get("freeze", True), "shared-static %s" % s_["path"], "static %s is mutable or has interior mutability" % s_["path"],
             sample={"static": s_["path"]})
    a.ob(True, "statics-scanned", "", nontrivial=False, sample={"statics in the crate": len(prog.statics)})
    for f in prog.adts[WORKER]["variants"][0]["fields"]:
        a.ob(not f["pub"], "worker-field-public %s" % f["name"], "Worker.%s is public" % f["name"], nontrivial=False)
    for r in thread_regions(eng):
        clos = r[len("thread:"):]
        body = prog.bodies.get(clos)
        t = prog.types[body.local_ty(1)]
        for u in t.get("upvars", []):
            ts = prog.types[u]["s"]
            bad = prog.types[u]["k"] in ("ref", "ptr") or "std::sync::Arc" in ts or "std::rc::Rc" in ts or "std::sync::atomic" in ts
            a.ob(not bad, "closure-shares %s in %s" % (ts, short(clos)), "the worker closure captures %s: state shared with other threads" % ts,
                 sample={"closure": short(clos), "captures": ts})
    # ---------------------------------------------------------------- b
    # the channel-backed socket's parts by type (its field names are private)
    fi_ss = {}
    if SERVERSOCKET in prog.adts:
        for i, f in enumerate(prog.adts[SERVERSOCKET]["variants"][0]["fields"]):
            ts = prog.types[f["ty"]]["s"]
            if ts == "std::net::UdpSocket":
                fi_ss.setdefault("socket", i)
            elif ts == "std::net::SocketAddr":
                fi_ss.setdefault("remote", i)
    inserts = [e for e in L.events if base_name(e) == "std::collections::HashMap::insert"]
    b.need(len(set(e.node for e in inserts)), 2, "client registrations (one per handler)")
    ssnew = [e for e in L.events if e.inlined and base_name(e).endswith("socket::ServerSocket::new")]
    senders = [e for e in L.events if e.inlined and base_name(e).endswith("socket::ServerSocket::sender")]
    for e in inserts:
        b.ob(L.field_ref(e.args[0], "clients"), "insert-into-other-map in %s" % short(e.body), "registration into another map than Server.clients", e.loc, nontrivial=False)
        key = e.args[1] if len(e.args) > 1 else None
        okk = isinstance(key, tuple) and key[0] == "t" and (term_contains(key, lambda t: isinstance(t, tuple) and len(t) > 1 and t[1] == "peer_addr_of_datagram")
                                                            or term_contains(key, lambda t: isinstance(t, tuple) and t and t[0] in ("join", "phi")))
        b.ob(okk, "routing-key-not-requester in %s" % short(e.body), "the routing key is not the source address of the request (it is %s)" % repr(key)[:80], e.loc,
             sample={"routing key": "source address of the request"})
        # the per-transfer socket of the same frame has the same remote
        mine = [x for x in ssnew if x.ctx[:len(e.ctx)] == e.ctx]
        b.ob(bool(mine) and any(len(x.args) > 1 and x.args[1] == key for x in mine), "routing-key-differs-from-remote in %s" % short(e.body),
             "the key under which the transfer is registered differs from the remote address of its socket: datagrams of one client are routed to another transfer",
             e.loc, sample={"ServerSocket::new remote == routing key": True})
        # the Sender registered is the one of that socket
        val = e.args[2] if len(e.args) > 2 else None
        snd = [x for x in senders if x.ctx[:len(e.ctx)] == e.ctx]
        oks = bool(snd) and isinstance(val, tuple) and val[0] == "t" and term_contains(val, is_app("<std::sync::mpsc::Sender<T> as std::clone::Clone>::clone"))
        oks = oks and any((arg_pointee(x, 0) or {}).get((fi_ss.get("remote"),)) == key for x in snd)
        b.ob(oks, "registered-sender-of-other-socket in %s" % short(e.body), "the Sender registered for the client is not the one of the transfer's own socket", e.loc,
             sample={"registered sender": "clone of the transfer socket's sender"})
    gs = [o for o in eng.obligations.values() if o.kind == "ghost:singleport"]
    b.need(len(gs), 2, "registrations monitored for the port mode")
    for o in gs:
        b.ob(o.proven, "registration-in-multi-port in %s" % short(o.body), o.residual, o.loc, sample={"insert only if": "single_port"})
    # dispatch
    chs = [e for e in L.events if base_name(e) == "std::sync::mpsc::Sender::send"]
    b.need(len(set(e.node for e in chs)), 1, "dispatch into a transfer's channel")
    for e in chs:
        tgt = e.args[0]
        okm = isinstance(tgt, tuple) and tgt[0] == "r" and term_contains(tgt, lambda t: isinstance(t, tuple) and len(t) > 1 and t[1] == "map_value")
        b.ob(okm, "dispatch-not-by-table in %s" % short(e.body), "a datagram is forwarded to a channel that was not looked up in the routing table", e.loc)
        mv = find_terms(tgt, lambda t: isinstance(t, tuple) and len(t) > 3 and t[0] == "app" and t[1] == "map_value")
        if mv:
            args_ = mv[0][3]
            keyref = args_[1] if len(args_) > 1 else None
            # the key is the `from` of the datagram being dispatched: a reference into listen()'s frame holding the source address
            kv = None
            if isinstance(keyref, tuple) and keyref[0] == "r":
                for x in L.by_node.get(e.node, []):
                    pass
            okk = L.field_ref(args_[0], "clients") and isinstance(keyref, tuple) and keyref[0] == "r" and keyref[1][0] == "L" and keyref[1][1] == eng.entry_frame
            if not okk and L.field_ref(args_[0], "clients") and isinstance(keyref, tuple) and keyref[0] == "r":
                # the address was handed down by value: the key refers to a copy; what counts is the value found there at the lookup
                site = mv[0][2]
                for x in L.by_node.get(site, []):
                    tv = (arg_pointee(x, 1) or {}).get(()) if len(x.args) > 1 and x.args[1] == keyref else None
                    if isinstance(tv, tuple) and tv[0] == "t" and term_contains(tv, lambda t: isinstance(t, tuple) and len(t) > 1 and t[1] == "peer_addr_of_datagram"):
                        okk = True
            b.ob(okk, "dispatch-key-not-source in %s" % short(e.body), "the routing table is not indexed with the source address of the datagram being dispatched", e.loc,
                 sample={"clients[key]": "key = source of this datagram"})
        # forwarded value is the decoded packet of this iteration
        pv = e.args[1] if len(e.args) > 1 else None
        okp = isinstance(pv, tuple) and (pv[0] == "agg" or pv[0] == "t")
        b.ob(okp, "dispatch-forwards-other-value", "something else than the received packet is forwarded", e.loc, nontrivial=False)
    buffer_monotone(world, eng, b, "DATA of a concurrent upload with a larger blksize is truncated (and taken for its final block)")
    # the channel-backed socket
    for meth, need_remote in (("send", True), ("send_to", False)):
        impl = "tftpd::<socket::ServerSocket as socket::Socket>::" + meth
        if impl not in prog.bodies:
            b.fail("anchor-lost ServerSocket::%s" % meth, "impl not found")
            continue
        e1 = world.run("fn:" + impl)
        outs = [x for x in e1.events if base_name(x) in ("std::net::UdpSocket::send_to", "std::net::UdpSocket::send")]
        b.need(len(outs), 1, "datagram send in ServerSocket::%s" % meth)
        sroot = ("P", ("L", e1.entry_frame, 1), ())
        for x in outs:
            oksock = isinstance(x.args[0], tuple) and x.args[0][0] == "r" and x.args[0][1] == sroot and tuple(x.args[0][2][:1]) == (fi_ss.get("socket"),)
            b.ob(oksock and base_name(x).endswith("send_to"), "serversocket-sends-via-other-socket (%s)" % meth,
                 "the channel-backed socket does not send through its clone of the listening socket", x.loc, sample={"sends via": "self.socket (clone of the listening socket)"})
            if need_remote:
                to = x.args[2] if len(x.args) > 2 else None
                okr = isinstance(to, tuple) and to[0] == "r" and to[1] == sroot and tuple(to[2][:1]) == (fi_ss.get("remote"),)
                if not okr:
                    # passed by value (SocketAddr is Copy): the value read from self.remote
                    okr = term_contains(to, lambda t: isinstance(t, tuple) and len(t) == 3 and t[0] == "init" and t[1] == sroot and tuple(t[2][:1]) == (fi_ss.get("remote"),))
                b.ob(okr, "serversocket-sends-to-other-remote", "ServerSocket::send does not address its own remote", x.loc, sample={"send to": "self.remote"})
    # ---------------------------------------------------------------- c
    binds = [e for e in L.events if base_name(e) == "std::net::UdpSocket::bind"]
    conns = [e for e in L.events if base_name(e) == "std::net::UdpSocket::connect"]
    c.need(len(set(e.node for e in binds)), 1, "bind of the per-transfer socket")
    c.need(len(set(e.node for e in conns)), 1, "connect of the per-transfer socket")
    for e in binds:
        v = e.args[0]
        fr_ = find_terms(v, is_app("<std::net::SocketAddr as std::convert::From<(I, u16)>>::from"))
        okb = False
        if fr_:
            tup = fr_[0][3][0] if fr_[0][3] else None
            if isinstance(tup, tuple) and tup[0] == "agg":
                items = dict((k, vv) for k, vv in tup[1])
                port = items.get("(1,)")
                ipv = items.get("(0,)")
                okb = port is not None and port[0] == "i" and port[1] == (0, ()) and term_contains(ipv, is_app("std::net::SocketAddr::ip"))
        elif isinstance(v, tuple) and v and v[0] == "agg" and isinstance(v[1], dict):
            # bind((ip, port)): the tuple itself is the ToSocketAddrs argument
            port = v[1].get((1,))
            ipv = [vv for k, vv in v[1].items() if k and k[0] == 0]
            okb = port is not None and port[0] == "i" and port[1] == (0, ()) and any(term_contains(x, is_app("std::net::SocketAddr::ip")) for x in ipv)
        c.ob(okb, "transfer-socket-bind in %s" % short(e.body), "the per-transfer socket is not bound to (local ip, port 0)", e.loc, sample={"bind": "(local ip, 0)"})
    for e in conns:
        # same frame's bind result is what gets connected, to the requester (= the handler's `to`)
        to = e.args[1] if len(e.args) > 1 else None
        okc = isinstance(to, tuple) and (to[0] == "r" or (to[0] == "t" and term_contains(to, lambda t: isinstance(t, tuple) and len(t) > 1 and
                                                                                      (t[1] == "peer_addr_of_datagram" or t[0] in ("join", "phi", "proj")))))
        c.ob(okc, "transfer-socket-connect in %s" % short(e.body), "connect() target of the per-transfer socket unknown", e.loc, nontrivial=False)
    # every state in which a worker is started has either the channel-backed socket (single-port mode) or a UdpSocket whose
    # connect() to the requester succeeded on that path (lemma L-CONN of C05, on the states that reach the worker's
    # remote_addr().unwrap())
    from .C05 import lemma_conn
    lay = world.server_layout()
    fi5 = {n: (tuple(lay[n]) if lay.get(n) is not None else None) for n in ("socket", "single_port", "largest_block_size", "clients", "duplicate_packets")}
    self_root = ("P", ("L", eng.entry_frame, 1), ())
    starts = [o for o in eng.obligations.values() if o.region == "listener" and o.kind == "unwrap" and isinstance(o.value, tuple) and o.value and o.value[0] == "t"
              and isinstance(o.value[1], tuple) and o.value[1][0] == "app" and o.value[1][1] == "tftpd::socket::Socket::remote_addr"]
    c.need(len(starts), 2, "worker starts on the listener (send and receive)")
    for o in starts:
        lemma, why = lemma_conn(world, eng, o, self_root, fi5)
        c.ob(lemma is not None, "socket-returned-unconnected in %s" % short(o.body),
             "a worker can be started on a per-transfer socket without a successful connect() to the requester: datagrams from other endpoints reach the transfer (%s)" % why,
             o.loc, sample={"worker start": short(o.body), "socket": "channel-backed or connected"})
    # ---------------------------------------------------------------- d
    kinds = {v["name"]: i + 1 for i, v in enumerate(prog.adts[PACKET]["variants"])}
    illegal = None
    for i, vv in enumerate(prog.adts[ERRORCODE]["variants"]):
        if vv["name"] == "IllegalOperation":
            illegal = prog.variant_discr(ERRORCODE, i)
    backs = eng.loop_backs.get(L.head, []) if L.head else []
    seen = {}
    for s_ in backs:
        g_ = s_.store.get(("G",), {})
        kd, rt, rp = g_.get(("kind",)), g_.get(("routed",)), g_.get(("reply",))
        pk = None
        if kd is not None and kd[0] == "i":
            for nm_, k_ in kinds.items():
                if s_.ctx.entails_eq(kd[1], lin.const(k_)):
                    pk = nm_
        if pk not in ("Data", "Ack", "Error", "Oack"):
            continue
        routed_ok = rt is not None and rt[0] == "i" and s_.ctx.entails_eq(rt[1], lin.const(1))
        if routed_ok:
            seen.setdefault(pk, set()).add("routed")
            continue
        okr = rp is not None and rp[0] == "i" and illegal is not None and s_.ctx.entails_eq(rp[1], lin.const(100 + illegal))
        seen.setdefault(pk, set()).add("error" if okr else "silent")
        d.ob(okr, "stray-%s-not-answered" % pk.lower(), "a %s datagram from an endpoint that owns no transfer is not answered with ERROR IllegalOperation" % pk.upper(),
             sample={"stray packet": pk, "reply": "ERROR 4"})
    for pk in ("Data", "Ack", "Error", "Oack"):
        d.ob("error" in seen.get(pk, ()), "stray-%s-path-missing" % pk.lower(), "no loop iteration answers a stray %s with an ERROR (seen: %s)" % (pk, sorted(seen.get(pk, ()))),
             nontrivial=False)
    # "each transfer yields exactly its own file": a worker touches the path it was given and nothing else (shared with C03.a)
    from . import C03
    import_clause(world, tier, a, C03, "C03.a", ("worker-fs-path", "unexpected-fs-api"), "workers only touch their own target path")
    return rep
