"""C04 - Loss tolerance: structural conditions without which a single loss provably fails a transfer."""
from analyzer import lin
from .common import *
from .workers import *
from .C07 import counter_analysis

BUDGET = 6


def timer_test_edges(R, loopn):
    """true edges of `elapsed >= timeout` tests inside the loop: PartialOrd::ge / comparison calls on Durations"""
    eng = R.eng
    out = set()
    evs = []
    for e in R.events:
        if e.node in loopn and not e.inlined and base_name(e) in ("std::cmp::PartialOrd::ge", "std::cmp::PartialOrd::gt",
                                                                  "std::cmp::PartialOrd::le", "std::cmp::PartialOrd::lt"):
            te = bool_call_true_edges(eng, e)
            if te is None:
                continue
            n = base_name(e)
            evs.append(e)
            if n.endswith("::ge") or n.endswith("::gt"):
                out |= set(te["true"])
            else:
                out |= set(te["false"])
    return out, evs


def check(world, tier):
    prog = world.lib
    rep = Report("C04")
    rep.level = "other"
    rep.trusted_base = ["rustc nightly MIR", "explored inlined supergraph of both worker closures", "abstract interpreter obligations"]
    rep.explanation = ("Completion under a loss pattern is a liveness claim over schedules and is NOT decided. Decided are the structural conditions "
                       "without which one lost datagram provably fails a transfer: (a) the sender's receive loop contains a retransmission of the window "
                       "guarded by the time-out test and re-arms its timer after each burst; (b) the receiver re-acknowledges on a non-progress cycle "
                       "(out-of-sequence DATA), so a lost ACK is repaired; (c) the retry budget is at least 6 in both roles and neither a stale ACK nor a "
                       "duplicate DATA consumes it or aborts; (d) an accepted ACK cannot abort (remove/overflow obligations discharged).")
    eng = world.run("listen")
    S = region_for(world, eng, "::send")
    Rv = region_for(world, eng, "::receive")
    a = rep.clause("C04.a", "sender: retransmission of the window on the time-out edge, timer re-armed after each burst")
    b = rep.clause("C04.b", "receiver: a non-progress cycle through the receive re-acknowledges the last in-sequence block")
    c = rep.clause("C04.c", "retry budget >= 6; stale ACKs and duplicate DATA neither consume it nor abort")
    d = rep.clause("C04.d", "an accepted ACK cannot abort the transfer")
    e_ = rep.clause("C04.e", "a partially acknowledged final window is sent again: the sender ends only when its queue is empty")
    if S is None or Rv is None:
        a.fail("anchor-lost worker-closures", "closures spawned by Worker::send / Worker::receive not found")
        return rep
    rep.analysed = {"regions": [S.name, Rv.name], "events": len(S.events) + len(Rv.events)}
    # ------------------------------------------------------------ a
    lps = S.transfer_loops()
    if a.need(len(lps), 1, "send loop containing the receive"):
        fid, h = lps[0]
        loopn = S.loop_nodes(fid, h)
        head = (fid, h)
        g = S.g
        outside = set(g.succ.keys()) - loopn
        data_sends = set(n for n in S.send_nodes(variants=("Data",)) if n in loopn)
        a.need(len(data_sends), 1, "DATA transmission inside the sender's receive loop (retransmission)")
        tedges, tevs = timer_test_edges(S, loopn)
        a.need(len(tevs), 1, "time-out test inside the sender's receive loop")
        for n in data_sends:
            ok = bool(tedges) and n not in g.reachable([head], avoid_edges=tedges, avoid_nodes=outside)
            a.ob(ok, "retransmit-behind-timeout", "DATA is (re)transmitted in the receive loop without the time-out test", sample={
                "send node": node_str(prog, n), "dominated by": "elapsed >= timeout (true edge)"})
        # the time-out test uses the worker's negotiated timeout
        for e in tevs:
            ok = any(term_contains(x, lambda t: isinstance(t, tuple) and len(t) == 3 and t[0] == "env") for x in e.argsnap[1:2] + [e.args[1]]) \
                if len(e.args) > 1 else False
            a.ob(ok, "timeout-operand", "the retransmission test does not compare with the worker's timeout", e.loc,
                 sample={"ge operand": repr(e.args[1])[:100] if len(e.args) > 1 else None})
        # a retransmission cycle exists: receive failed -> head -> test true -> DATA -> receive
        oe = S.recv_outcome_edges()
        cyc = False
        for e in oe.get("err", ()):
            if e[0] in loopn and head in g.reachable([e[1]], avoid_nodes=outside):
                r = g.reachable([head], avoid_nodes=outside)
                if data_sends & r:
                    cyc = True
        a.ob(cyc, "retransmission-cycle", "after a failed receive the sender cannot come back to a transmission of the window")
        # the timer local is re-armed (Instant::now) only right after a burst
        nows = [e for e in S.events if e.node in loopn and base_name(e) == "std::time::Instant::now"]
        a.need(len(set(e.node for e in nows)), 1, "timer re-arm (Instant::now) inside the loop")
        # the burst as seen from the transfer function: call sites whose callee transmits DATA
        bursts = set()
        for n in data_sends:
            f = n[0]
            while len(f) > len(fid):
                site = f[-1]
                f = f[:-1]
                if f == fid and isinstance(site, tuple) and site[0] == "call":
                    bursts.add((fid, site[3]))
        bursts |= set(n for n in data_sends if n[0] == fid)
        # a burst written as a loop inside the receive loop: passing its head is "transmitting the window" (also when the window is empty)
        for n in data_sends:
            for lp in S.loops_containing(n):
                if lp == (fid, h):
                    break
                bursts.add(lp)
        for e in nows:
            ok = e.node not in g.reachable([head], avoid_nodes=bursts | outside)
            a.ob(ok, "timer-rearmed-without-burst", "the retransmission timer is re-armed on a path that did not transmit the window "
                 "(a time-out can then be postponed forever)", e.loc)
    # ------------------------------------------------------------ b
    lpr = Rv.transfer_loops()
    if b.need(len(lpr), 1, "receive loop containing the receive"):
        fid, h = lpr[0]
        loopn = Rv.loop_nodes(fid, h)
        head = (fid, h)
        g = Rv.g
        outside = set(g.succ.keys()) - loopn
        pushes = set(Rv.push_nodes())
        acks = set(n for n in Rv.send_nodes(variants=("Ack",)) if n in loopn)
        oe = Rv.recv_outcome_edges()
        data_edges = [e for e in oe.get(("pkt", "Data"), ()) if e[0] in loopn]
        b.need(len(data_edges), 1, "DATA edge in the receive loop")
        found = False
        for e in data_edges:
            r1 = g.reachable([e[1]], avoid_nodes=pushes | outside)
            for n in acks & r1:
                if head in g.reachable([n], avoid_nodes=pushes | outside):
                    found = True
        # call sites (in the loop's own frame) whose callee sends the ACK: "the re-acknowledgement"
        ack_sites = set(n for n in acks if n[0] == fid)
        for n in acks:
            f = n[0]
            while len(f) > len(fid):
                site = f[-1]
                f = f[:-1]
                if f == fid and isinstance(site, tuple) and site[0] == "call":
                    ack_sites.add((fid, site[3]))
        errret = set(Rv.ret_nodes(Rv.transfer_frame(), 1))
        for e in data_edges:
            silent = head in g.reachable([e[1]], avoid_nodes=pushes | ack_sites | outside)
            b.ob(not silent, "silent-non-progress-data-cycle",
                 "an out-of-sequence DATA (e.g. the retransmission of the block whose ACK was lost) can be dropped without re-acknowledging: "
                 "the sender never learns that the block arrived and the upload fails after its retries",
                 sample={"DATA edge": node_str(prog, e[0]), "every non-progress cycle re-ACKs": not silent})
        b.ob(found, "re-ack-on-out-of-sequence-data",
             "no acknowledgement is sent on any non-progress cycle of the receive loop: when the ACK for block k is lost, the peer's "
             "retransmissions of DATA k are never answered and both sides give up",
             sample={"ACK sends inside the receive loop": len(acks), "non-progress DATA cycle with ACK": found})
    # ------------------------------------------------------------ c
    for (R, tag, prog_nodes) in ((S, "send", set(S.drain_nodes())), (Rv, "receive", set(Rv.push_nodes()))):
        lp = R.transfer_loops()
        if not lp:
            continue
        fid, h = lp[0]
        tmp = Clause("tmp", "tmp")
        info = counter_analysis(R, tmp, fid, h, tag)
        if not info:
            c.ob(False, "retry-counter %s" % tag, "no bounded retry counter found in the %s loop (see C07.a)" % tag)
            continue
        c.ob(info["budget"] >= BUDGET, "retry-budget %s" % tag, "the %s worker gives up after %d failed receives (< %d)" % (tag, info["budget"], BUDGET),
             sample={"region": tag, "retry bound": info["budget"]})
        loopn = R.loop_nodes(fid, h)
        g = R.g
        outside = set(g.succ.keys()) - loopn
        # the budget counts CONSECUTIVE failures: it is re-armed whenever a window has been completed, i.e. the counter is
        # initialised inside the outer transfer loop, not once per transfer
        if len(lp) >= 2:
            outer_nodes = R.loop_nodes(*lp[-1])
            init_nodes = [node for (node, wr, wp, v) in eng.writes_log if wr == info["root"] and wp == () and node not in loopn
                          and isinstance(v, tuple) and v and v[0] == "i" and not v[1][1]]
            rearmed = any(n_ in outer_nodes for n_ in init_nodes)
            c.ob(rearmed, "retry-budget-not-rearmed %s" % tag,
                 "the %s worker's retry counter is initialised once per transfer and never reset: %d failed receives anywhere in a transfer "
                 "(not %d consecutive ones) abort it" % (tag, info["budget"], info["budget"]),
                 sample={"region": tag, "counter initialised inside the per-window loop": rearmed})
        oe = R.recv_outcome_edges()
        kind = ("pkt", "Ack") if tag == "send" else ("pkt", "Data")
        edges = [e for e in oe.get(kind, ()) if e[0] in loopn]
        c.need(len(edges), 1, "%s edge in the %s loop" % (kind[1], tag))
        tf = R.transfer_frame()
        errret = set(R.ret_nodes(tf, 1))
        for e in edges:
            r = g.reachable([e[1]], avoid_nodes=prog_nodes | outside, stop_at=[(fid, h)])
            bump = r & info["incs"]
            c.ob(not bump, "stale-%s-consumes-retry %s" % (kind[1].lower(), tag),
                 "a stale/duplicate %s (one that makes no progress) increments the retry counter: %d of them abort the transfer without any time-out"
                 % (kind[1].upper(), info["budget"]), sample={"region": tag, "edge": kind[1], "reaches increment": bool(bump)})
            if tag == "send":
                r2 = g.reachable([e[1]], avoid_nodes=prog_nodes, stop_at=errret | set([(fid, h)]))
                c.ob(not (r2 & errret), "stale-ack-aborts", "an ACK that is not accepted can end the transfer with an error")
    # ------------------------------------------------------------ d
    obs = S.transfer_obligations()
    d.need(len(obs), 3, "obligations on the accepted-ACK path (distance arithmetic, remove)")
    for o in obs:
        if o.kind in ("duration-add", "instant-sub"):
            continue
        d.ob(o.proven, ob_key(o), "on the ACK path of the sender: %s (%s)" % (o.detail, o.residual), o.loc,
             sample={"obligation": o.kind + " " + o.detail, "at": o.loc, "proven": o.proven})
    from . import C07
    import_clause(world, tier, e_, C07, "C07.d", ("send-ends-only-when-window-empty",), "sender-finishes-only-with-empty-window")
    # the socket's read time-out is the negotiated one (otherwise the retry budget is spent before a retransmission is due)
    import_clause(world, tier, a, C07, "C07.a", ("read-timeout", "channel-wait", "os-receive"), "receive time-out = negotiated time-out")
    return rep
