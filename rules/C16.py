"""C16 - Duplicate-packets mode repeats data-phase datagrams N+1 times."""
from analyzer import lin
from .common import *
from .workers import *

SERVER = "tftpd::server::Server"
CONFIG = "tftpd::config::Config"


def counting_loop(R, fid, h):
    """`let mut i = a; while i < b { ...; i += 1 }`: a local of the loop's frame that starts at a constant, is incremented by
    exactly 1 once per iteration and has no other write, and whose test `i < b` is the loop's continue condition.
    Returns (start value, end value) or None"""
    eng = R.eng
    g = R.g
    body = eng.frame_bodies.get(fid)
    if body is None or h not in body.loops:
        return None
    ln = R.loop_nodes(fid, h)
    outside = set(g.succ) - ln
    M = eng.loop_cache.get((fid, h), {}).get("M", set())
    for (root, path) in M:
        if root[0] != "L" or root[1] != fid or path != ():
            continue
        ps = eng.sym_ids.get(("phi", fid, h, root, ()))
        if ps is None:
            continue
        incs, other, inits = set(), set(), []
        for (node, wr, wp, v) in eng.writes_log:
            if wr != root or wp != ():
                continue
            if node not in ln:
                inits.append(v)
            elif isinstance(v, tuple) and v and v[0] == "i" and v[1] == (1, ((ps, 1),)):
                incs.add(node)
            elif isinstance(v, tuple) and v and v[0] == "i" and v[1] == (0, ((ps, 1),)):
                pass
            else:
                other.add(node)
        if not incs or other or not inits or not all(v[0] == "i" and not v[1][1] for v in inits) or len(set(v[1][0] for v in inits)) != 1:
            continue
        if g.on_cycle_avoiding((fid, h), avoid_nodes=incs | outside):
            continue    # an iteration can skip the increment
        end = None
        for edge, conds in eng.edge_conds.items():
            if edge[0] not in ln or edge[0][0] != fid:
                continue
            for c in conds:
                if c[0] == "bool" and c[1][0] == "cmp":
                    op, a, b, truth = c[1][1], c[1][2], c[1][3], c[2]
                    stays = edge[1] in ln
                    if a == (0, ((ps, 1),)) and ((op == "Lt" and truth and stays) or (op == "Ge" and not truth and stays)):
                        end = b
                    elif b == (0, ((ps, 1),)) and ((op == "Gt" and truth and stays) or (op == "Le" and not truth and stays)):
                        end = a
        if end is not None:
            return (inits[0], ("i", end, None))
    return count_down_loop(R, fid, h)


def count_down_loop(R, fid, h):
    """`let mut left = r; while left > 0 { ...; left -= 1 }`: as many iterations as `for _ in 0..r`. A local of the loop's frame
    that starts at one value, is decremented by exactly 1 once per iteration, has no other write, and whose test against 0
    (`> 0`, `!= 0`, `0 <`) is the loop's continue condition. Returns (0, start value) or None"""
    eng = R.eng
    g = R.g
    ln = R.loop_nodes(fid, h)
    outside = set(g.succ) - ln
    M = eng.loop_cache.get((fid, h), {}).get("M", set())
    for (root, path) in M:
        if root[0] != "L" or root[1] != fid or path != ():
            continue
        ps = eng.sym_ids.get(("phi", fid, h, root, ()))
        if ps is None:
            continue
        me = (0, ((ps, 1),))
        decs, other, inits = set(), set(), []
        for (node, wr, wp, v) in eng.writes_log:
            if wr != root or wp != ():
                continue
            if node not in ln:
                inits.append(v)
            elif isinstance(v, tuple) and v and v[0] == "i" and v[1] == (-1, ((ps, 1),)):
                decs.add(node)
            elif isinstance(v, tuple) and v and v[0] == "i" and v[1] == me:
                pass
            else:
                other.add(node)
        if not decs or other or not inits or not all(v[0] == "i" for v in inits) or len(set(v[1] for v in inits)) != 1:
            continue
        if g.on_cycle_avoiding((fid, h), avoid_nodes=decs | outside):
            continue    # an iteration can skip the decrement
        guarded = False
        zero = (0, ())
        for edge, conds in eng.edge_conds.items():
            if edge[0] not in ln or edge[0][0] != fid or edge[1] not in ln:
                continue
            for c in conds:
                if c[0] == "neq" and c[1] == me and 0 in c[2]:
                    guarded = True
                elif c[0] == "bool" and c[1][0] == "cmp":
                    op, a, b, truth = c[1][1], c[1][2], c[1][3], c[2]
                    if a == me and b == zero and ((op in ("Gt", "Ne") and truth) or (op in ("Le", "Eq") and not truth)):
                        guarded = True
                    elif b == me and a == zero and ((op in ("Lt", "Ne") and truth) or (op in ("Ge", "Eq") and not truth)):
                        guarded = True
        # the test must be the only way to stay in the loop: no cycle through the head avoids a "left != 0" edge
        if guarded:
            stay = set()
            for edge, conds in eng.edge_conds.items():
                if edge[0] in ln and edge[0][0] == fid and edge[1] in ln:
                    for c in conds:
                        if (c[0] == "neq" and c[1] == me and 0 in c[2]) or (c[0] == "bool" and c[1][0] == "cmp" and (
                                (c[1][2] == me and c[1][3] == zero and ((c[1][1] in ("Gt", "Ne") and c[2]) or (c[1][1] in ("Le", "Eq") and not c[2]))) or
                                (c[1][3] == me and c[1][2] == zero and ((c[1][1] in ("Lt", "Ne") and c[2]) or (c[1][1] in ("Ge", "Eq") and not c[2]))))):
                            stay.add(edge)
            # the head's test: the first branch on the counter after the head
            first = [e for e in stay if e[0] in g.reachable([(fid, h)], avoid_nodes=outside, stop_at=set(x[0] for x in stay))]
            if first and not g.on_cycle_avoiding((fid, h), avoid_nodes=outside, avoid_edges=first):
                return (("i", zero, None), inits[0])
    return None


def repeat_loops(R):
    """loops `for _ in a..b` (or `(a..b).for_each / try_for_each(..)`) that contain a socket send:
    [(fid, h, (start value, end value) or None, nodes of the loop)]"""
    eng = R.eng
    out = []
    seen = set()
    for n in R.send_nodes():
        for (fid, h) in R.loops_containing(n):
            if (fid, h) in seen:
                continue
            rng = None
            if (fid, h) in getattr(eng, "iter_loops", {}):
                info = eng.iter_loops[(fid, h)]
                for ev in R.by_node.get(info["caller"], []):
                    if ev.inlined or not ev.args:
                        continue
                    sub = None
                    if isinstance(ev.args[0], tuple) and ev.args[0][0] == "agg":
                        sub = ev.args[0][1]
                    elif ev.argsnap and isinstance(ev.argsnap[0], dict):
                        sub = ev.argsnap[0]     # adapters taking `&mut self`
                    if sub is not None and sub.get((0,)) is not None and sub.get((1,)) is not None and sub.get(("$over",)) is None:
                        rng = (sub.get((0,)), sub.get((1,)))
                if rng is None:
                    continue
            elif counting_loop(R, fid, h) is not None:
                rng = counting_loop(R, fid, h)
            else:
                # iteration protocol: Range<int>::next in the loop's own frame, inside the loop
                nexts = [e for e in R.events if e.ctx == fid and e.bb in eng.frame_bodies[fid].loops[h] and
                         base_name(e) == "std::iter::range::<impl std::iter::Iterator for std::ops::Range<A>>::next"]
                if not nexts:
                    continue
                for e in R.events:
                    if e.ctx == fid and base_name(e) == "<I as std::iter::IntoIterator>::into_iter" and isinstance(e.args[0], tuple) and e.args[0][0] == "agg":
                        sub = e.args[0][1]
                        if sub.get((0,)) is not None and sub.get((1,)) is not None:
                            rng = (sub.get((0,)), sub.get((1,)))
            seen.add((fid, h))
            out.append((fid, h, rng, R.loop_nodes(fid, h)))
    return out


def check(world, tier):
    prog = world.lib
    rep = Report("C16")
    rep.level = "other"
    rep.trusted_base = ["rustc nightly MIR", "path queries on the inlined supergraph", "abstract interpretation of Config::new (range of duplicate_packets)"]
    rep.assumptions = ["A-CONFIG: the server binary builds its Config only through Config::new (checked on the tftpd bin)"]
    rep.explanation = ("Decided: (a) the data-phase send helper is a loop over 0..r with exactly one Socket::send of the same packet per iteration and "
                       "r = Worker.repeat_amount = Server.duplicate_packets + 1 = Config.duplicate_packets + 1; (b) in both worker closures every DATA and "
                       "every ACK is sent inside that loop, and the handshake replies (OACK, ACK 0, ERROR) on the listener are single sends outside any loop; "
                       "(c) Config::new stores duplicate_packets only if parse::<u8> succeeded and the value is not 255, so 0 <= N <= 254 at every Ok return "
                       "(the +1 cannot overflow); the client passes the constant 1. NOT decided: completion of transfers when both sides duplicate "
                       "(rests on C08.c/d and C02.a).")
    eng = world.run("listen")
    a = rep.clause("C16.a", "N+1 copies: loop 0..r, one send of the same packet per iteration, r = duplicate_packets + 1")
    b = rep.clause("C16.b", "all DATA / ACK of the data phase go through the repeat loop; handshake replies are sent once")
    c = rep.clause("C16.c", "start-up rejection: 0 <= duplicate_packets <= 254 at every Ok return of Config::new")
    d = rep.clause("C16.d", "surplus copies are inert: a repeated ACK / DATA neither consumes the retry budget nor aborts")
    e5 = rep.clause("C16.e", "a surplus copy that cannot be sent does not fail the transfer (the peer may be gone once the first copy arrived)")
    regions = [(region_for(world, eng, "::send"), "send"), (region_for(world, eng, "::receive"), "receive")]
    if any(r is None for r, _ in regions):
        a.fail("anchor-lost worker-closures", "worker closures not found")
        return rep
    p_dup = world.server_layout().get("duplicate_packets")
    for (R, tag) in regions:
        g = R.g
        rl = repeat_loops(R)
        a.need(len(rl), 1, "repeat loop around a socket send (%s)" % tag)
        data_phase = set(R.send_nodes(variants=("Data", "Ack")))
        in_loop = set()
        for (fid, h, rng, ln) in rl:
            sends = set(n for n in R.send_nodes() if n in ln)
            sites = call_sites_in_frame(R, sends, fid)
            in_loop |= sends
            # range 0..r
            rng_ok = False
            if rng is not None:
                st_, en_ = rng
                if st_ is not None and st_[0] == "i" and st_[1] == (0, ()) and en_ is not None and en_[0] == "i":
                    s_ = single_sym(en_[1])
                    rng_ok = env_field(R, s_, "repeat_amount")
                elif st_ is not None and st_[0] == "i" and st_[1] == (1, ()) and en_ is not None and en_[0] == "i" and env_field(R, single_sym(en_[1]), "repeat_amount"):
                    # peeled first iteration: `if r == 0 { return }; send; for _ in 1..r { send }` - one send of the same packet in the
                    # same function before the loop, not executed when r == 0
                    s_ = single_sym(en_[1])
                    caller_sites = set()
                    owner = fid if (fid, h) not in getattr(eng, "iter_loops", {}) else eng.iter_loops[(fid, h)]["caller"][0]
                    pre = [n for n in call_sites_in_frame(R, set(R.send_nodes()) - ln, owner) if n not in ln and n[0] == owner]
                    zero_targets = [edge[1] for edge, cnd in R.edges_on_symbol(s_)
                                    if (cnd[0] == "eq" and cnd[2] == 0) or (cnd[0] == "bool" and cnd[1][0] == "cmp" and cnd[1][1] == "Eq" and cnd[2]
                                                                          and ((not cnd[1][2][1] and cnd[1][2][0] == 0) or (not cnd[1][3][1] and cnd[1][3][0] == 0)))]
                    head_node = (fid, h) if (fid, h) not in getattr(eng, "iter_loops", {}) else eng.iter_loops[(fid, h)]["caller"]
                    nonzero_edges = [edge for edge, cnd in R.edges_on_symbol(s_)
                                     if (cnd[0] == "neq" and 0 in cnd[2]) or (cnd[0] == "bool" and cnd[1][0] == "cmp" and (
                                         (cnd[1][1] == "Eq" and not cnd[2]) or (cnd[1][1] == "Ne" and cnd[2])) and
                                         ((not cnd[1][2][1] and cnd[1][2][0] == 0) or (not cnd[1][3][1] and cnd[1][3][0] == 0)))]
                    if len(pre) == 1 and (zero_targets or nonzero_edges):
                        p0 = pre[0]
                        dominates = head_node not in g.reachable([(owner, 0)], avoid_nodes=[p0])
                        # not executed when r == 0: unreachable from the r == 0 edge, or only reachable through the r != 0 edge
                        skipped_when_zero = (p0 not in g.reachable(zero_targets)) if zero_targets else (p0 not in g.reachable([(owner, 0)], avoid_edges=nonzero_edges))
                        rng_ok = dominates and skipped_when_zero
                        if rng_ok:
                            peeled = set(n for n in R.send_nodes() if n == p0 or (len(n[0]) > len(owner) and n[0][:len(owner)] == owner and n[0][len(owner)][3] == p0[1]))
                            sends |= peeled
                            in_loop |= peeled
            a.ob(rng_ok, "repeat-range %s" % tag, "the repeat loop of the %s worker does not run over 0..repeat_amount" % tag,
                 sample={"region": tag, "loop": node_str(prog, (fid, h)), "range": "0..Worker.repeat_amount" if rng_ok else "?"})
            # exactly one send per iteration
            outside = set(g.succ) - ln
            once = not g.on_cycle_avoiding((fid, h), avoid_nodes=sites | outside)
            twice = any(n2 in g.reachable([n1], avoid_nodes=set([(fid, h)]) | outside) - set([n1]) for n1 in sites for n2 in sites)
            a.ob(once and not twice and len(sites) >= 1, "one-send-per-iteration %s" % tag, "an iteration of the repeat loop sends %s"
                 % ("nothing on some path" if not once else "more than once"), sample={"send sites in loop": len(sites)})
            # C16.e: the copies after the first are surplus. A conformant peer may have finished (and closed its socket) as soon
            # as the first copy of the last ACK / DATA arrived; on a connected UDP socket the OS then reports the next send as
            # failed (ECONNREFUSED). If every iteration's send is fatal, that failure aborts a transfer that is in fact complete
            # (and clean-on-error deletes the uploaded file). Necessary condition decided here: the loop has an iteration path
            # on which no send whose failure reaches the transfer's Err return is executed.
            errret = set(R.ret_nodes(R.transfer_frame(), 1))
            # a send is fatal when its failure ends the transfer: the Err return is reachable from it before anything else
            # happens (no other send, no receive, no new loop iteration anywhere)
            heads = set()
            for fr_id, body_ in eng.frame_bodies.items():
                if fr_id and fr_id[0] == R.root_fid[0]:
                    for hh in getattr(body_, "loops", {}):
                        heads.add((fr_id, hh))
            heads |= set(k for k in getattr(eng, "iter_loops", {}) if k[0] and k[0][0] == R.root_fid[0])
            all_sends = set(R.send_nodes())
            recvs_ = set(R.recv_nodes())
            fatal = set()
            for n in sends:
                if errret & g.reachable([n], avoid_nodes=heads | recvs_ | (all_sends - set([n]))):
                    fatal.add(n)
            e5.need(len(sends), 1, "sends inside the repeat loop (%s)" % tag)
            lenient = (not fatal) or g.on_cycle_avoiding((fid, h), avoid_nodes=fatal | (set(g.succ) - ln))
            e5.ob(lenient, "surplus-copy-failure-fatal %s" % tag,
                  "every copy of a repeated datagram is sent with a fatal error path: when the peer has finished after the first copy (closed socket, "
                  "ECONNREFUSED on the connected transfer socket) the failed surplus copy aborts the %s worker although the transfer is complete%s"
                  % (tag, " - and clean-on-error then deletes the uploaded file" if tag == "receive" else ""),
                  sample={"region": tag, "fatal send sites in the loop": len(fatal), "iteration without a fatal send exists": lenient})
            # the same packet reference each time: the argument of the send is not modified in the loop
            M = eng.loop_cache.get((fid, h), {}).get("M", set())
            pk_args = set()
            for n in sends:
                for ev in R.by_node[n]:
                    if not ev.inlined and len(ev.args) > 1 and isinstance(ev.args[1], tuple) and ev.args[1][0] == "r":
                        pk_args.add((ev.args[1][1], ev.args[1][2]))
            a.ob(not any((root, path[:k]) in M for (root, path) in pk_args for k in range(len(path) + 1)), "packet-changes-between-copies %s" % tag,
                 "the packet is modified between the copies", nontrivial=False)
        for n in data_phase:
            b.ob(n in in_loop, "data-phase-send-outside-repeat-loop %s" % tag,
                 "a %s datagram of the %s worker is sent directly, not through the repeat loop: with --duplicate-packets N it goes out once instead of N+1 times"
                 % ("/".join(sorted(str(x) for x in R.send_variants_at(n))), tag), sample={"send": node_str(prog, n), "in repeat loop": n in in_loop})
        b.need(len(data_phase), 1, "data-phase sends (%s)" % tag)
        # every call site in the transfer frame that leads to a DATA/ACK send goes through the helper: equivalently no
        # dyn send event of a Data/Ack outside the loops
        for e in R.send_events():
            vn = R.packet_variants(e)
            if vn in ("Data", "Ack") and e.node not in in_loop:
                b.ob(False, "direct-%s-send %s" % (vn, tag), "%s sent outside the repeat loop" % vn, e.loc)
    # handshake replies on the listener: single sends outside any loop except listen's own
    L = [e for e in eng.events if e.region == "listener" and not e.inlined and base_name(e) in SEND_NAMES + ("std::net::UdpSocket::send_to", "std::net::UdpSocket::send")]
    b.need(len(L), 3, "reply sends on the listener")
    for e in L:
        fid = e.ctx
        # loops of enclosing frames other than the entry frame
        inner_loop = False
        cur_fid, cur_bb = e.ctx, e.bb
        while len(cur_fid) >= 1:
            body = eng.frame_bodies.get(cur_fid)
            if body is not None and cur_fid != eng.entry_frame and any(cur_bb in Lp for Lp in body.loops.values()):
                inner_loop = True
            if len(cur_fid) == 1:
                break
            site = cur_fid[-1]
            cur_bb = site[3] if isinstance(site, tuple) and site[0] == "call" else None
            cur_fid = cur_fid[:-1]
        b.ob(not inner_loop, "handshake-reply-in-loop in %s" % short(e.body), "a handshake reply on the listener is sent inside a loop", e.loc)
    # r = duplicate_packets + 1 at Worker::new
    self_root = ("P", ("L", eng.entry_frame, 1), ())
    dup_sym = eng.sym_ids.get(("init", self_root, tuple(p_dup))) if p_dup is not None else None
    news = [e for e in eng.events if e.region == "listener" and e.inlined and base_name(e).endswith("worker::Worker::new")]
    a.need(len(set(e.node for e in news)), 2, "Worker::new call sites on the listener")
    for e in news:
        v = e.args[6] if len(e.args) > 6 else None
        ok = isinstance(v, tuple) and v[0] == "i" and dup_sym is not None and v[1] == (1, ((dup_sym, 1),))
        a.ob(ok, "repeat-amount-provenance in %s" % short(e.body), "Worker::new's repeat amount is not Server.duplicate_packets + 1", e.loc,
             sample={"Worker::new repeat_amount": lin.show(v[1]) if isinstance(v, tuple) and v[0] == "i" else repr(v)[:40]})
    # ---------------------------------------------------------------- c
    cfg_new = CONFIG + "::new"
    if cfg_new not in prog.bodies:
        c.fail("anchor-lost Config::new", "Config::new not found")
        return rep
    ec = world.run("fn:" + cfg_new)
    fi_cd = prog.field_index(CONFIG, "duplicate_packets")
    oks = [s for s in ec.finals if ret_discr(ec, s) == 0]
    c.need(len(oks), 1, "Ok return states of Config::new")
    for s in oks:
        v = ec.read(s, ("L", ec.entry_frame, 0), (("v", 0), 0, fi_cd))
        ok = v[0] == "i" and s.ctx.entails(lin.le(v[1], lin.const(254))) and s.ctx.entails(lin.le(lin.const(0), v[1]))
        c.ob(ok, "config-accepts-255", "Config::new can return Ok with duplicate_packets outside 0..=254 (the server's `+ 1` then overflows)",
             sample={"Ok(config).duplicate_packets": lin.show(v[1]) if v[0] == "i" else repr(v)[:40], "in 0..=254": ok})
    # Server::new copies the field
    new = SERVER + "::new"
    if new in prog.bodies:
        en = world.run("fn:" + new)
        for s in [s for s in en.finals if ret_discr(en, s) == 0]:
            # server_layout maps Config.duplicate_packets to the place Server::new copies it to (None if it is not copied)
            c.ob(p_dup is not None, "server-new-copies-duplicate-packets",
                 "Server::new does not take duplicate_packets from the Config", sample={"Server.duplicate_packets": "Config.duplicate_packets"})
    # the server binary builds Config only through Config::new
    bn = world.bins.get("tftpd.bin")
    if bn is not None:
        made = 0
        calls = 0
        for bp, bdy in bn.bodies.items():
            for blk in bdy.blocks:
                for st in blk["stmts"]:
                    if st["k"] == "assign" and st["rv"]["k"] == "agg" and st["rv"]["ak"].get("path") == "tftpd::Config":
                        made += 1
                t = blk["term"]
                if t["k"] == "call" and strip_generics(t["fn"].get("def", "")).endswith("Config::new"):
                    calls += 1
        c.ob(made == 0 and calls >= 1, "bin-builds-config-by-hand", "the tftpd binary constructs a Config other than through Config::new",
             sample={"Config::new calls in bin": calls, "Config struct literals in bin": made})
    from . import C04
    import_clause(world, tier, d, C04, "C04.c", ("stale-", "retry-counter"), "surplus-copies-inert")
    # "exactly N+1 times": no extra burst before the negotiated time-out because of the time the copies take (timer re-armed after the burst)
    import_clause(world, tier, d, C04, "C04.a", ("timer-rearmed",), "timer re-armed after the burst")
    return rep
