"""C15 - Block-number wrap-around: every block-number operation is modular or proven in range."""
from analyzer import lin
from .common import *
from .workers import *

OK_U16_METHODS = ("wrapping_add", "wrapping_sub", "to_be_bytes", "to_le_bytes", "to_ne_bytes", "clone", "to_string", "fmt")


def raw_block_symbols(R):
    """symbols holding a wire block number: block-number fields of received packets, their wrapping_add images,
    and the loop-head copies of u16 locals of the transfer frames that are only ever assigned such values"""
    eng = R.eng
    prog = R.prog
    a = prog.adts[PACKET]
    raw = set()
    paths = set()
    for vi, v in enumerate(a["variants"]):
        for fi, f in enumerate(v["fields"]):
            if prog.types[f["ty"]].get("bits") == 16 and prog.types[f["ty"]]["k"] == "int" and v["name"] in ("Ack", "Data"):
                paths.add((("v", 0), 0, ("v", vi), fi))
    for sid, p in recv_field_syms(R).items():
        if tuple(p) in paths:
            raw.add(sid)

    def is_raw_expr(e):
        s_ = single_sym(e)
        return s_ is not None and s_ in raw

    changed = True
    while changed:
        changed = False
        for nm, sid in list(eng.sym_ids.items()):
            if sid in raw or not isinstance(nm, tuple) or not nm:
                continue
            if nm[0] == "wrap" and nm[1] == "add" and nm[2] == 16 and (is_raw_expr(nm[3]) or is_raw_expr(nm[4])):
                raw.add(sid)
                changed = True
            elif nm[0] == "phi" and len(nm) == 5 and nm[4] == () and nm[3][0] == "L":
                root = nm[3]
                if not (isinstance(root[1], tuple) and root[1][:1] == R.root_fid):
                    continue
                sti = eng.static_type(root, ())
                if sti is None or prog.types[sti].get("bits") != 16:
                    continue
                vals = [v for (node, wr, wp, v) in eng.writes_log if wr == root and wp == ()]

                def self_step(e_):
                    # `n = n.wrapping_add(k)`: a 16-bit counter stepped modulo 2^16 (the receiver may count instead of copying)
                    s2 = single_sym(e_)
                    n2 = eng.sym_names[s2] if s2 is not None else None
                    return isinstance(n2, tuple) and n2 and n2[0] == "wrap" and n2[2] == 16 and single_sym(n2[3]) == sid and not n2[4][1]
                if vals and any(isinstance(v, tuple) and v[0] == "i" and (is_raw_expr(v[1]) or self_step(v[1])) for v in vals) and \
                        all(isinstance(v, tuple) and v[0] == "i" and (is_raw_expr(v[1]) or not v[1][1] or single_sym(v[1]) == sid or self_step(v[1])) for v in vals):
                    raw.add(sid)
                    changed = True
    return raw


def check(world, tier):
    prog = world.lib
    rep = Report("C15")
    rep.level = "other"
    rep.trusted_base = ["rustc nightly MIR", "abstract interpreter obligations (overflow asserts)", "symbol provenance of block numbers"]
    rep.explanation = ("Decided for both worker closures: (a) block numbers are u16 on the wire and in both state machines; (b) every arithmetic operation "
                       "on a block number is a wrapping_* call or a checked operation whose overflow assert is discharged; no ordering comparison (<, <=, >, >=) "
                       "is made between two raw block numbers - only equality, or an ordering on a wrapping_sub distance against a bound; no saturating/"
                       "checked/overflowing u16 method is applied to a block number; (c) no attribution 65536 away: the acceptance guard entails "
                       "distance < len(queue) (C08.d) and the receiver accepts only last+1 (C02.a) - re-checked here. NOT decided: contents of transfers "
                       "longer than 65535 blocks.")
    eng = world.run("listen")
    S = region_for(world, eng, "::send")
    Rv = region_for(world, eng, "::receive")
    a = rep.clause("C15.a", "block numbers are 16-bit on the wire and in both state machines")
    b = rep.clause("C15.b", "every block-number operation is modular or proven in range; no ordering between raw block numbers")
    c = rep.clause("C15.c", "no attribution to a block 65536 positions away")
    if S is None or Rv is None:
        a.fail("anchor-lost worker-closures", "worker closures not found")
        return rep
    pk = prog.adts[PACKET]
    for v in pk["variants"]:
        if v["name"] in ("Ack", "Data"):
            for f in v["fields"]:
                t = prog.types[f["ty"]]
                if v["name"] == "Ack" or f["name"] == "block_num":
                    a.ob(t["k"] == "int" and t.get("bits") == 16 and not t.get("signed"), "wire-type %s.%s" % (v["name"], f["name"]),
                         "Packet::%s field %s is %s, not u16" % (v["name"], f["name"], t["s"]), sample={"field": v["name"] + "." + f["name"], "type": t["s"]})
    for (R, tag) in ((S, "send"), (Rv, "receive")):
        raw = raw_block_symbols(R)
        b.need(len(raw), 2, "block-number symbols (%s)" % tag)
        loopcarried = [s for s in raw if isinstance(eng.sym_names[s], tuple) and eng.sym_names[s][0] == "phi"]
        a.need(len(loopcarried), 1, "loop-carried block-number variable (%s)" % tag)
        rep.analysed[tag] = {"block-number symbols": len(raw)}
        # ordering comparisons
        seen = set()
        for edge, conds in eng.edge_conds.items():
            if not (isinstance(edge[0][0], tuple) and edge[0][0][:1] == R.root_fid):
                continue
            for cnd in conds:
                if cnd[0] != "bool" or cnd[1][0] != "cmp":
                    continue
                op, aa, bb = cnd[1][1], cnd[1][2], cnd[1][3]
                sa = set(s for s, _ in aa[1])
                sb = set(s for s, _ in bb[1])
                if not ((sa | sb) & raw):
                    continue
                key = (edge[0], op)
                if key in seen:
                    continue
                seen.add(key)
                if op in ("Lt", "Le", "Gt", "Ge"):
                    both = bool(sa & raw) and bool(sb & raw)
                    b.ob(not both, "ordering-of-raw-block-numbers %s in %s" % (tag, short(frame_fn(edge[0][0]))),
                         "two wire block numbers are compared with %s: after the wrap 65535 -> 0 the order is reversed" % op,
                         eng.frame_bodies[edge[0][0]].loc(edge[0][1]) if edge[0][0] in eng.frame_bodies else "",
                         sample={"comparison": op, "at": node_str(prog, edge[0]), "both operands raw block numbers": both})
                else:
                    b.ob(True, "equality-of-block-numbers %s %s" % (tag, node_str(prog, edge[0])), "", sample={"comparison": op, "at": node_str(prog, edge[0])})
        # u16 methods applied to block numbers
        for e in R.events:
            n = base_name(e)
            if n.startswith("core::num::<impl u16>::"):
                meth = n.rsplit("::", 1)[-1]
                touches = any(isinstance(v, tuple) and v and v[0] == "i" and set(s for s, _ in v[1][1]) & raw for v in e.args)
                if touches:
                    b.ob(meth in OK_U16_METHODS, "non-modular-op %s %s" % (meth, tag),
                         "u16::%s is applied to a block number: it is not modular arithmetic (wrap-around 65535 -> 0 gives a wrong distance / number)" % meth, e.loc,
                         sample={"method": meth, "at": e.loc})
        # overflow asserts in the region
        for o in eng.obligations.values():
            if o.region == R.name and o.kind == "assert" and o.detail.startswith("Overflow"):
                b.ob(o.proven, ob_key(o) + " " + tag, "checked arithmetic in the %s worker can overflow: %s" % (tag, o.residual), o.loc,
                     sample={"assert": o.detail, "in": short(o.body), "proven": o.proven})
    # ---- c
    from . import C08, C02
    r8 = run_rule(C08, world, tier)
    for cl in r8.clauses:
        if cl.id == "C08.d":
            for f in cl.findings:
                c.ob(False, "via " + f.key, f.msg, f.site)
            c.ob(not cl.findings, "acceptance-guard (C08.d)", "", sample={"C08.d obligations": cl.obligations, "discharged": cl.discharged})
    r2 = run_rule(C02, world, tier)
    for cl in r2.clauses:
        if cl.id == "C02.a":
            for f in cl.findings:
                c.ob(False, "via " + f.key, f.msg, f.site)
            c.ob(not cl.findings, "accept-only-next (C02.a)", "", sample={"C02.a obligations": cl.obligations, "discharged": cl.discharged})
    # the wire decoder accepts every block number (0 after the wrap)
    from . import C11
    import_clause(world, tier, a, C11, "C11.c", ("block-number-",), "decoder accepts every 16-bit block number")
    from . import C01, C09
    import_clause(world, tier, a, C01, "C01.b", ("burst", "data-payload"), "burst numbering is modular")
    import_clause(world, tier, a, C09, "C09.c", ("windowsize",), "window size used = acknowledged")
    import_clause(world, tier, a, C09, "C09.d", ("indowsize",), "window size range")
    return rep
