//! tftp-facts: a rustc_private driver that serialises the MIR of the crate being
//! compiled (bodies, types, ADTs, impls, constants) as JSON "facts".
//!
//! It contains no rule: it is a faithful serialiser. It is injected with
//! RUSTC_WORKSPACE_WRAPPER (argv[1] is the real rustc path and is dropped).
//! Output: $TFTP_FACTS_OUT/<crate-name>.<crate-type>.json, one write per process.
#![feature(rustc_private)]

extern crate rustc_abi;
extern crate rustc_driver;
extern crate rustc_hir;
extern crate rustc_interface;
extern crate rustc_middle;
extern crate rustc_session;
extern crate rustc_span;

use rustc_driver::Compilation;
use rustc_hir::def::DefKind;
use rustc_hir::def_id::{DefId, LOCAL_CRATE};
use rustc_middle::mir::{self, *};
use rustc_middle::ty::print::with_no_trimmed_paths;
use rustc_middle::ty::{self, Instance, Ty, TyCtxt, TypingEnv};
use rustc_span::Span;
use std::collections::HashMap;
use std::fmt::Write as _;

// ---------------------------------------------------------------- tiny JSON
enum J {
    Null,
    Bool(bool),
    Int(i128),
    Big(String),
    Str(String),
    Arr(Vec<J>),
    Obj(Vec<(&'static str, J)>),
    Map(Vec<(String, J)>),
}

fn esc(s: &str, out: &mut String) {
    out.push('"');
    for c in s.chars() {
        match c {
            '"' => out.push_str("\\\""),
            '\\' => out.push_str("\\\\"),
            '\n' => out.push_str("\\n"),
            '\r' => out.push_str("\\r"),
            '\t' => out.push_str("\\t"),
            c if (c as u32) < 0x20 => {
                let _ = write!(out, "\\u{:04x}", c as u32);
            }
            c => out.push(c),
        }
    }
    out.push('"');
}

impl J {
    fn s(x: impl Into<String>) -> J {
        J::Str(x.into())
    }
    fn write(&self, out: &mut String) {
        match self {
            J::Null => out.push_str("null"),
            J::Bool(b) => out.push_str(if *b { "true" } else { "false" }),
            J::Int(i) => {
                let _ = write!(out, "{}", i);
            }
            J::Big(s) => out.push_str(s),
            J::Str(s) => esc(s, out),
            J::Arr(v) => {
                out.push('[');
                for (i, x) in v.iter().enumerate() {
                    if i > 0 {
                        out.push(',');
                    }
                    x.write(out);
                }
                out.push(']');
            }
            J::Obj(v) => {
                out.push('{');
                for (i, (k, x)) in v.iter().enumerate() {
                    if i > 0 {
                        out.push(',');
                    }
                    esc(k, out);
                    out.push(':');
                    x.write(out);
                }
                out.push('}');
            }
            J::Map(v) => {
                out.push('{');
                for (i, (k, x)) in v.iter().enumerate() {
                    if i > 0 {
                        out.push(',');
                    }
                    esc(k, out);
                    out.push(':');
                    x.write(out);
                }
                out.push('}');
            }
        }
    }
}

// ---------------------------------------------------------------- extractor
struct Cx<'tcx> {
    tcx: TyCtxt<'tcx>,
    types: Vec<J>,
    type_ix: HashMap<Ty<'tcx>, usize>,
    ext_fns: HashMap<String, J>,
}

fn path_of(tcx: TyCtxt<'_>, d: DefId) -> String {
    let p = with_no_trimmed_paths!(tcx.def_path_str(d));
    if d.is_local() {
        format!("{}::{}", tcx.crate_name(LOCAL_CRATE), p)
    } else {
        p
    }
}

impl<'tcx> Cx<'tcx> {
    fn span(&self, sp: Span) -> J {
        let sm = self.tcx.sess.source_map();
        let lo = sm.lookup_char_pos(sp.lo());
        let hi = sm.lookup_char_pos(sp.hi());
        let file = match &lo.file.name {
            rustc_span::FileName::Real(r) => match r.local_path() {
                Some(p) => p.display().to_string(),
                None => format!("{:?}", lo.file.name),
            },
            other => format!("{:?}", other),
        };
        J::Obj(vec![
            ("file", J::s(file)),
            ("line", J::Int(lo.line as i128)),
            ("col", J::Int(lo.col.0 as i128 + 1)),
            ("eline", J::Int(hi.line as i128)),
            ("ecol", J::Int(hi.col.0 as i128 + 1)),
            ("exp", J::Bool(sp.from_expansion())),
        ])
    }

    fn ty(&mut self, t: Ty<'tcx>) -> J {
        J::Int(self.ty_ix(t) as i128)
    }

    fn ty_ix(&mut self, t: Ty<'tcx>) -> usize {
        if let Some(i) = self.type_ix.get(&t) {
            return *i;
        }
        let ix = self.types.len();
        self.types.push(J::Null);
        self.type_ix.insert(t, ix);
        let s = with_no_trimmed_paths!(format!("{}", t));
        let mut o: Vec<(&'static str, J)> = vec![("s", J::s(s))];
        match t.kind() {
            ty::Bool => o.push(("k", J::s("bool"))),
            ty::Char => o.push(("k", J::s("char"))),
            ty::Int(it) => {
                o.push(("k", J::s("int")));
                o.push(("signed", J::Bool(true)));
                o.push(("bits", J::Int(it.bit_width().unwrap_or(64) as i128)));
                o.push(("ptrsize", J::Bool(it.bit_width().is_none())));
            }
            ty::Uint(ut) => {
                o.push(("k", J::s("int")));
                o.push(("signed", J::Bool(false)));
                o.push(("bits", J::Int(ut.bit_width().unwrap_or(64) as i128)));
                o.push(("ptrsize", J::Bool(ut.bit_width().is_none())));
            }
            ty::Float(_) => o.push(("k", J::s("float"))),
            ty::Adt(def, args) => {
                o.push(("k", J::s("adt")));
                o.push(("path", J::s(path_of(self.tcx, def.did()))));
                let mut a = vec![];
                for ga in args.iter() {
                    if let Some(t2) = ga.as_type() {
                        a.push(self.ty(t2));
                    }
                }
                o.push(("args", J::Arr(a)));
            }
            ty::Ref(_, inner, m) => {
                o.push(("k", J::s("ref")));
                o.push(("mut", J::Bool(m.is_mut())));
                let i = self.ty(*inner);
                o.push(("inner", i));
            }
            ty::RawPtr(inner, m) => {
                o.push(("k", J::s("ptr")));
                o.push(("mut", J::Bool(m.is_mut())));
                let i = self.ty(*inner);
                o.push(("inner", i));
            }
            ty::Slice(inner) => {
                o.push(("k", J::s("slice")));
                let i = self.ty(*inner);
                o.push(("inner", i));
            }
            ty::Array(inner, n) => {
                o.push(("k", J::s("array")));
                let i = self.ty(*inner);
                o.push(("inner", i));
                o.push(("len", J::s(format!("{}", n))));
            }
            ty::Str => o.push(("k", J::s("str"))),
            ty::Tuple(ts) => {
                o.push(("k", J::s("tuple")));
                let mut a = vec![];
                for t2 in ts.iter() {
                    a.push(self.ty(t2));
                }
                o.push(("elems", J::Arr(a)));
            }
            ty::Closure(d, args) => {
                o.push(("k", J::s("closure")));
                o.push(("def", J::s(path_of(self.tcx, *d))));
                let mut a = vec![];
                for t2 in args.as_closure().upvar_tys().iter() {
                    a.push(self.ty(t2));
                }
                o.push(("upvars", J::Arr(a)));
            }
            ty::FnDef(d, args) => {
                o.push(("k", J::s("fndef")));
                o.push(("def", J::s(path_of(self.tcx, *d))));
                let mut a = vec![];
                for ga in args.iter() {
                    if let Some(t2) = ga.as_type() {
                        a.push(self.ty(t2));
                    }
                }
                o.push(("args", J::Arr(a)));
            }
            ty::FnPtr(..) => o.push(("k", J::s("fnptr"))),
            ty::Dynamic(..) => o.push(("k", J::s("dyn"))),
            ty::Param(p) => {
                o.push(("k", J::s("param")));
                o.push(("name", J::s(p.name.to_string())));
            }
            ty::Never => o.push(("k", J::s("never"))),
            ty::Alias(..) => o.push(("k", J::s("alias"))),
            _ => o.push(("k", J::s("other"))),
        }
        self.types[ix] = J::Obj(o);
        ix
    }

    fn place(&mut self, p: &Place<'tcx>) -> J {
        let mut proj = vec![];
        for e in p.projection.iter() {
            proj.push(match e {
                ProjectionElem::Deref => J::s("deref"),
                ProjectionElem::Field(f, t) => J::Obj(vec![
                    ("f", J::Int(f.as_usize() as i128)),
                    ("ty", self.ty(t)),
                ]),
                ProjectionElem::Downcast(name, v) => J::Obj(vec![
                    ("downcast", J::Int(v.as_usize() as i128)),
                    (
                        "name",
                        match name {
                            Some(n) => J::s(n.to_string()),
                            None => J::Null,
                        },
                    ),
                ]),
                ProjectionElem::Index(l) => J::Obj(vec![("index", J::Int(l.as_usize() as i128))]),
                ProjectionElem::ConstantIndex {
                    offset,
                    min_length,
                    from_end,
                } => J::Obj(vec![
                    ("cidx", J::Int(offset as i128)),
                    ("min_length", J::Int(min_length as i128)),
                    ("from_end", J::Bool(from_end)),
                ]),
                ProjectionElem::Subslice { from, to, from_end } => J::Obj(vec![
                    ("subslice_from", J::Int(from as i128)),
                    ("to", J::Int(to as i128)),
                    ("from_end", J::Bool(from_end)),
                ]),
                other => J::Obj(vec![("other", J::s(format!("{:?}", other)))]),
            });
        }
        J::Obj(vec![
            ("l", J::Int(p.local.as_usize() as i128)),
            ("p", J::Arr(proj)),
        ])
    }

    fn konst(&mut self, c: &ConstOperand<'tcx>, env: TypingEnv<'tcx>) -> J {
        let tcx = self.tcx;
        let t = c.const_.ty();
        let mut o: Vec<(&'static str, J)> = vec![("ty", self.ty(t))];
        if let mir::Const::Unevaluated(uv, _) = c.const_ {
            if let Some(p) = uv.promoted {
                o.push(("kind", J::s("promoted")));
                o.push(("def", J::s(path_of(tcx, uv.def))));
                o.push(("index", J::Int(p.as_usize() as i128)));
                return J::Obj(o);
            }
        }
        match t.kind() {
            ty::FnDef(d, _) => {
                o.push(("kind", J::s("fn")));
                o.push(("def", J::s(path_of(tcx, *d))));
                return J::Obj(o);
            }
            _ => {}
        }
        if let Some(si) = c.const_.try_eval_scalar_int(tcx, env) {
            let size = si.size();
            let bits = si.to_bits(size);
            match t.kind() {
                ty::Bool => {
                    o.push(("kind", J::s("bool")));
                    o.push(("val", J::Bool(bits != 0)));
                }
                ty::Int(_) => {
                    let v = size.sign_extend(bits) as i128;
                    o.push(("kind", J::s("int")));
                    o.push(("val", J::Int(v)));
                }
                ty::Uint(_) => {
                    o.push(("kind", J::s("int")));
                    o.push(("val", J::Big(format!("{}", bits))));
                }
                ty::Char => {
                    o.push(("kind", J::s("char")));
                    o.push(("val", J::Int(bits as i128)));
                }
                _ => {
                    o.push(("kind", J::s("scalar")));
                    o.push(("val", J::Big(format!("{}", bits))));
                }
            }
            return J::Obj(o);
        }
        // slices (&str / &[u8])
        if let Ok(v) = c.const_.eval(tcx, env, c.span) {
            if let Some(bytes) = if matches!(v, mir::ConstValue::Slice { .. }) {
                v.try_get_slice_bytes_for_diagnostics(tcx)
            } else {
                None
            } {
                match std::str::from_utf8(bytes) {
                    Ok(s) if matches!(t.kind(), ty::Ref(_, inner, _) if inner.is_str()) => {
                        o.push(("kind", J::s("str")));
                        o.push(("val", J::s(s)));
                    }
                    _ => {
                        o.push(("kind", J::s("bytes")));
                        o.push((
                            "val",
                            J::Arr(bytes.iter().map(|b| J::Int(*b as i128)).collect()),
                        ));
                    }
                }
                return J::Obj(o);
            }
            if matches!(v, mir::ConstValue::ZeroSized) {
                o.push(("kind", J::s("zst")));
                return J::Obj(o);
            }
        }
        o.push(("kind", J::s("other")));
        o.push(("repr", J::s(with_no_trimmed_paths!(format!("{}", c.const_)))));
        J::Obj(o)
    }

    fn operand(&mut self, op: &Operand<'tcx>, env: TypingEnv<'tcx>) -> J {
        match op {
            Operand::Copy(p) => J::Obj(vec![("copy", self.place(p))]),
            Operand::Move(p) => J::Obj(vec![("move", self.place(p))]),
            Operand::Constant(c) => J::Obj(vec![("const", self.konst(c, env))]),
            #[allow(unreachable_patterns)]
            other => J::Obj(vec![("otherop", J::s(format!("{:?}", other)))]),
        }
    }

    fn rvalue(&mut self, rv: &Rvalue<'tcx>, env: TypingEnv<'tcx>) -> J {
        match rv {
            Rvalue::Use(op, ..) => J::Obj(vec![("k", J::s("use")), ("op", self.operand(op, env))]),
            Rvalue::Repeat(op, n) => J::Obj(vec![
                ("k", J::s("repeat")),
                ("op", self.operand(op, env)),
                ("n", J::s(format!("{}", n))),
            ]),
            Rvalue::Ref(_, bk, p) => J::Obj(vec![
                ("k", J::s("ref")),
                (
                    "mut",
                    J::Bool(matches!(bk, BorrowKind::Mut { .. })),
                ),
                ("place", self.place(p)),
            ]),
            Rvalue::RawPtr(_, p) => J::Obj(vec![("k", J::s("rawptr")), ("place", self.place(p))]),
            Rvalue::Cast(ck, op, t) => J::Obj(vec![
                ("k", J::s("cast")),
                ("ck", J::s(format!("{:?}", ck))),
                ("op", self.operand(op, env)),
                ("ty", self.ty(*t)),
            ]),
            Rvalue::BinaryOp(bop, ops) => J::Obj(vec![
                ("k", J::s("bin")),
                ("op", J::s(format!("{:?}", bop))),
                ("l", self.operand(&ops.0, env)),
                ("r", self.operand(&ops.1, env)),
            ]),
            Rvalue::UnaryOp(uop, op) => J::Obj(vec![
                ("k", J::s("un")),
                ("op", J::s(format!("{:?}", uop))),
                ("x", self.operand(op, env)),
            ]),
            Rvalue::Discriminant(p) => {
                J::Obj(vec![("k", J::s("discr")), ("place", self.place(p))])
            }
            Rvalue::Aggregate(kind, ops) => {
                let ak = match &**kind {
                    AggregateKind::Array(_) => J::Obj(vec![("t", J::s("array"))]),
                    AggregateKind::Tuple => J::Obj(vec![("t", J::s("tuple"))]),
                    AggregateKind::Adt(d, v, _, _, active) => {
                        let adt = self.tcx.adt_def(*d);
                        J::Obj(vec![
                            ("t", J::s("adt")),
                            ("path", J::s(path_of(self.tcx, *d))),
                            ("variant", J::Int(v.as_usize() as i128)),
                            ("vname", J::s(adt.variant(*v).name.to_string())),
                            (
                                "active_field",
                                match active {
                                    Some(f) => J::Int(f.as_usize() as i128),
                                    None => J::Null,
                                },
                            ),
                        ])
                    }
                    AggregateKind::Closure(d, _) => J::Obj(vec![
                        ("t", J::s("closure")),
                        ("def", J::s(path_of(self.tcx, *d))),
                    ]),
                    other => J::Obj(vec![
                        ("t", J::s("other")),
                        ("repr", J::s(format!("{:?}", other))),
                    ]),
                };
                let mut a = vec![];
                for op in ops.iter() {
                    a.push(self.operand(op, env));
                }
                J::Obj(vec![("k", J::s("agg")), ("ak", ak), ("ops", J::Arr(a))])
            }
            Rvalue::CopyForDeref(p) => J::Obj(vec![
                ("k", J::s("use")),
                ("op", J::Obj(vec![("copy", self.place(p))])),
            ]),
            other => J::Obj(vec![
                ("k", J::s("other")),
                ("repr", J::s(format!("{:?}", other))),
            ]),
        }
    }

    fn callee(
        &mut self,
        func: &Operand<'tcx>,
        env: TypingEnv<'tcx>,
    ) -> J {
        let tcx = self.tcx;
        let fty = match func {
            Operand::Constant(c) => c.const_.ty(),
            _ => return J::Obj(vec![("indirect", self.operand(func, env))]),
        };
        if let ty::FnDef(d, args) = fty.kind() {
            let mut o: Vec<(&'static str, J)> = vec![("def", J::s(path_of(tcx, *d)))];
            o.push(("local", J::Bool(d.is_local())));
            let mut ga = vec![];
            for a in args.iter() {
                if let Some(t2) = a.as_type() {
                    ga.push(self.ty(t2));
                }
            }
            o.push(("gargs", J::Arr(ga)));
            // trait method?
            if let Some(tr) = tcx.trait_of_assoc(*d) {
                o.push(("trait", J::s(path_of(tcx, tr))));
                if let Some(st) = args.types().next() {
                    o.push(("self_ty", self.ty(st)));
                }
            }
            // impl method: note the impl's trait if any
            if let Some(imp) = tcx.impl_of_assoc(*d) {
                if tcx.impl_opt_trait_ref(imp).is_some() {
                    let tr = tcx.impl_trait_ref(imp).skip_binder();
                    o.push(("impl_of_trait", J::s(path_of(tcx, tr.def_id))));
                }
                let st = tcx.type_of(imp).skip_binder();
                o.push(("impl_self", self.ty(st)));
            }
            let resolved = Instance::try_resolve(tcx, env, *d, args).ok().flatten();
            match resolved {
                Some(inst) => {
                    let rd = inst.def_id();
                    o.push(("resolved", J::s(path_of(tcx, rd))));
                    o.push(("resolved_local", J::Bool(rd.is_local())));
                    o.push((
                        "inst_kind",
                        J::s(match inst.def {
                            ty::InstanceKind::Item(_) => "item",
                            ty::InstanceKind::Virtual(..) => "virtual",
                            ty::InstanceKind::Intrinsic(_) => "intrinsic",
                            ty::InstanceKind::ClosureOnceShim { .. } => "closure_once_shim",
                            ty::InstanceKind::FnPtrShim(..) => "fnptr_shim",
                            ty::InstanceKind::DropGlue(..) => "drop_glue",
                            ty::InstanceKind::CloneShim(..) => "clone_shim",
                            _ => "other",
                        }),
                    ));
                    if !rd.is_local() {
                        self.note_ext(rd);
                    }
                }
                None => {
                    o.push(("resolved", J::Null));
                    if !d.is_local() {
                        self.note_ext(*d);
                    }
                }
            }
            J::Obj(o)
        } else {
            J::Obj(vec![("indirect", self.operand(func, env))])
        }
    }

    fn note_ext(&mut self, d: DefId) {
        let tcx = self.tcx;
        let p = path_of(tcx, d);
        if self.ext_fns.contains_key(&p) {
            return;
        }
        let mut panics_doc = false;
        let mut has_doc = false;
        for attr in tcx.get_all_attrs(d) {
            if let Some((sym, _)) = attr.doc_str_and_fragment_kind() {
                has_doc = true;
                if sym.as_str().contains("# Panics") {
                    panics_doc = true;
                }
            }
        }
        self.ext_fns.insert(
            p,
            J::Obj(vec![
                ("doc", J::Bool(has_doc)),
                ("doc_panics", J::Bool(panics_doc)),
                ("crate", J::s(tcx.crate_name(d.krate).to_string())),
            ]),
        );
    }

    fn body(&mut self, did: DefId) -> J {
        let tcx = self.tcx;
        let body: &Body<'tcx> = tcx.optimized_mir(did);
        self.body_of(did, body)
    }

    fn body_of(&mut self, did: DefId, body: &Body<'tcx>) -> J {
        let tcx = self.tcx;
        let env = TypingEnv::post_analysis(tcx, did);
        let mut locals = vec![];
        for (_, d) in body.local_decls.iter_enumerated() {
            locals.push(J::Obj(vec![
                ("ty", self.ty(d.ty)),
                ("mut", J::Bool(d.mutability.is_mut())),
                ("span", self.span(d.source_info.span)),
            ]));
        }
        let mut dbg = vec![];
        for v in body.var_debug_info.iter() {
            let val = match &v.value {
                VarDebugInfoContents::Place(p) => self.place(p),
                VarDebugInfoContents::Const(_) => J::Null,
            };
            dbg.push(J::Obj(vec![
                ("name", J::s(v.name.to_string())),
                ("place", val),
                (
                    "arg",
                    match v.argument_index {
                        Some(i) => J::Int(i as i128),
                        None => J::Null,
                    },
                ),
            ]));
        }
        let mut blocks = vec![];
        for (_, bb) in body.basic_blocks.iter_enumerated() {
            let mut stmts = vec![];
            for st in bb.statements.iter() {
                match &st.kind {
                    StatementKind::Assign(b) => {
                        let (p, rv) = &**b;
                        stmts.push(J::Obj(vec![
                            ("k", J::s("assign")),
                            ("place", self.place(p)),
                            ("rv", self.rvalue(rv, env)),
                            ("span", self.span(st.source_info.span)),
                        ]));
                    }
                    StatementKind::SetDiscriminant {
                        place,
                        variant_index,
                    } => {
                        stmts.push(J::Obj(vec![
                            ("k", J::s("setdiscr")),
                            ("place", self.place(place)),
                            ("variant", J::Int(variant_index.as_usize() as i128)),
                            ("span", self.span(st.source_info.span)),
                        ]));
                    }
                    StatementKind::Intrinsic(i) => {
                        stmts.push(J::Obj(vec![
                            ("k", J::s("intrinsic")),
                            ("repr", J::s(format!("{:?}", i))),
                        ]));
                    }
                    _ => {}
                }
            }
            let term = bb.terminator();
            let tspan = self.span(term.source_info.span);
            let t = match &term.kind {
                TerminatorKind::Goto { target } => J::Obj(vec![
                    ("k", J::s("goto")),
                    ("t", J::Int(target.as_usize() as i128)),
                ]),
                TerminatorKind::SwitchInt { discr, targets } => {
                    let mut ts = vec![];
                    for (v, bbx) in targets.iter() {
                        ts.push(J::Arr(vec![
                            J::Big(format!("{}", v)),
                            J::Int(bbx.as_usize() as i128),
                        ]));
                    }
                    J::Obj(vec![
                        ("k", J::s("switch")),
                        ("op", self.operand(discr, env)),
                        ("targets", J::Arr(ts)),
                        ("otherwise", J::Int(targets.otherwise().as_usize() as i128)),
                        ("span", tspan),
                    ])
                }
                TerminatorKind::Return => J::Obj(vec![("k", J::s("return"))]),
                TerminatorKind::Unreachable => J::Obj(vec![("k", J::s("unreachable"))]),
                TerminatorKind::UnwindResume => J::Obj(vec![("k", J::s("resume"))]),
                TerminatorKind::UnwindTerminate(_) => J::Obj(vec![("k", J::s("terminate"))]),
                TerminatorKind::Drop { place, target, .. } => J::Obj(vec![
                    ("k", J::s("drop")),
                    ("place", self.place(place)),
                    ("t", J::Int(target.as_usize() as i128)),
                ]),
                TerminatorKind::Call {
                    func,
                    args,
                    destination,
                    target,
                    unwind,
                    fn_span,
                    ..
                } => {
                    let mut a = vec![];
                    for x in args.iter() {
                        a.push(self.operand(&x.node, env));
                    }
                    J::Obj(vec![
                        ("k", J::s("call")),
                        ("fn", self.callee(func, env)),
                        ("args", J::Arr(a)),
                        ("dest", self.place(destination)),
                        (
                            "t",
                            match target {
                                Some(t) => J::Int(t.as_usize() as i128),
                                None => J::Null,
                            },
                        ),
                        (
                            "unwind",
                            match unwind {
                                UnwindAction::Cleanup(b) => J::Int(b.as_usize() as i128),
                                _ => J::Null,
                            },
                        ),
                        ("span", tspan),
                        ("fn_span", self.span(*fn_span)),
                    ])
                }
                TerminatorKind::Assert {
                    cond,
                    expected,
                    msg,
                    target,
                    ..
                } => {
                    let m = match &**msg {
                        AssertKind::BoundsCheck { len, index } => J::Obj(vec![
                            ("kind", J::s("BoundsCheck")),
                            ("len", self.operand(len, env)),
                            ("index", self.operand(index, env)),
                        ]),
                        AssertKind::Overflow(op, l, r) => J::Obj(vec![
                            ("kind", J::s("Overflow")),
                            ("op", J::s(format!("{:?}", op))),
                            ("l", self.operand(l, env)),
                            ("r", self.operand(r, env)),
                        ]),
                        AssertKind::OverflowNeg(x) => J::Obj(vec![
                            ("kind", J::s("OverflowNeg")),
                            ("x", self.operand(x, env)),
                        ]),
                        AssertKind::DivisionByZero(x) => J::Obj(vec![
                            ("kind", J::s("DivisionByZero")),
                            ("x", self.operand(x, env)),
                        ]),
                        AssertKind::RemainderByZero(x) => J::Obj(vec![
                            ("kind", J::s("RemainderByZero")),
                            ("x", self.operand(x, env)),
                        ]),
                        other => J::Obj(vec![
                            ("kind", J::s("Other")),
                            ("repr", J::s(format!("{:?}", other))),
                        ]),
                    };
                    J::Obj(vec![
                        ("k", J::s("assert")),
                        ("cond", self.operand(cond, env)),
                        ("expected", J::Bool(*expected)),
                        ("msg", m),
                        ("t", J::Int(target.as_usize() as i128)),
                        ("span", tspan),
                    ])
                }
                TerminatorKind::FalseEdge { real_target, .. } => J::Obj(vec![
                    ("k", J::s("goto")),
                    ("t", J::Int(real_target.as_usize() as i128)),
                ]),
                TerminatorKind::FalseUnwind { real_target, .. } => J::Obj(vec![
                    ("k", J::s("goto")),
                    ("t", J::Int(real_target.as_usize() as i128)),
                ]),
                other => J::Obj(vec![
                    ("k", J::s("other")),
                    ("repr", J::s(format!("{:?}", other))),
                ]),
            };
            blocks.push(J::Obj(vec![
                ("stmts", J::Arr(stmts)),
                ("term", t),
                ("cleanup", J::Bool(bb.is_cleanup)),
            ]));
        }
        let kind = match tcx.def_kind(did) {
            DefKind::Fn => "fn",
            DefKind::AssocFn => "assoc_fn",
            DefKind::Closure => "closure",
            _ => "other",
        };
        let vis = match tcx.def_kind(did) {
            DefKind::Fn | DefKind::AssocFn => {
                if tcx.visibility(did).is_public() {
                    "pub"
                } else {
                    "restricted"
                }
            }
            _ => "n/a",
        };
        let mut o = vec![
            ("kind", J::s(kind)),
            ("vis", J::s(vis)),
            ("arg_count", J::Int(body.arg_count as i128)),
            ("span", self.span(body.span)),
            ("locals", J::Arr(locals)),
            ("debug", J::Arr(dbg)),
            ("blocks", J::Arr(blocks)),
        ];
        // impl / trait context
        if let Some(imp) = tcx.impl_of_assoc(did) {
            let st = tcx.type_of(imp).skip_binder();
            o.push(("impl_self", self.ty(st)));
            if tcx.impl_opt_trait_ref(imp).is_some() {
                let tr = tcx.impl_trait_ref(imp).skip_binder();
                o.push(("impl_of_trait", J::s(path_of(tcx, tr.def_id))));
            }
        }
        if let Some(tr) = tcx.trait_of_assoc(did) {
            o.push(("trait_default_of", J::s(path_of(tcx, tr))));
        }
        if matches!(tcx.def_kind(did), DefKind::Closure) {
            o.push(("parent", J::s(path_of(tcx, tcx.parent(did)))));
        } else if matches!(tcx.def_kind(did), DefKind::Fn | DefKind::AssocFn) {
            // names of the type parameters in substitution order (parents first): lets the analyzer bind them at a call
            let mut chain = vec![tcx.generics_of(did)];
            while let Some(p) = chain.last().unwrap().parent {
                chain.push(tcx.generics_of(p));
            }
            let mut gn = vec![];
            for g in chain.iter().rev() {
                for p in &g.own_params {
                    if let ty::GenericParamDefKind::Type { .. } = p.kind {
                        gn.push(J::s(p.name.to_string()));
                    }
                }
            }
            o.push(("generics", J::Arr(gn)));
        }
        J::Obj(o)
    }
}

fn in_test_cfg(tcx: TyCtxt<'_>, did: DefId) -> bool {
    // rustc is not invoked with --test for `cargo check --lib --bins`, so
    // cfg(test) items do not exist here; kept for documentation.
    let _ = (tcx, did);
    false
}

struct Facts;

impl rustc_driver::Callbacks for Facts {
    fn after_analysis<'tcx>(
        &mut self,
        _compiler: &rustc_interface::interface::Compiler,
        tcx: TyCtxt<'tcx>,
    ) -> Compilation {
        let out_dir = match std::env::var("TFTP_FACTS_OUT") {
            Ok(d) => d,
            Err(_) => return Compilation::Continue,
        };
        let crate_name = tcx.crate_name(LOCAL_CRATE).to_string();
        let crate_types: Vec<String> = tcx
            .crate_types()
            .iter()
            .map(|c| format!("{:?}", c).to_lowercase())
            .collect();
        let ctype = if crate_types.iter().any(|c| c.contains("executable")) {
            "bin"
        } else {
            "lib"
        };
        let mut cx = Cx {
            tcx,
            types: vec![],
            type_ix: HashMap::new(),
            ext_fns: HashMap::new(),
        };

        // ---- bodies
        let mut bodies: Vec<(String, J)> = vec![];
        for ldid in tcx.hir_body_owners() {
            let did = ldid.to_def_id();
            match tcx.def_kind(did) {
                DefKind::Fn | DefKind::AssocFn | DefKind::Closure => {}
                _ => continue,
            }
            if in_test_cfg(tcx, did) {
                continue;
            }
            let p = path_of(tcx, did);
            let b = cx.body(did);
            bodies.push((p.clone(), b));
            let promoted = tcx.promoted_mir(did);
            for (pi, pb) in promoted.iter_enumerated() {
                let j = cx.body_of(did, pb);
                bodies.push((format!("{}::promoted[{}]", p, pi.as_usize()), j));
            }
        }
        // ctor shims (tuple-struct / tuple-variant constructors used as fn values)
        // are not body owners; they are recognised by the analyzer from `fn` consts.

        // ---- ADTs, consts, statics, impls, traits
        let mut adts: Vec<(String, J)> = vec![];
        let mut consts: Vec<(String, J)> = vec![];
        let mut statics: Vec<J> = vec![];
        let mut impls: Vec<J> = vec![];
        let mut traits: Vec<(String, J)> = vec![];
        let mut unsafe_items: Vec<J> = vec![];
        for ldid in tcx.hir_crate_items(()).definitions() {
            let did = ldid.to_def_id();
            match tcx.def_kind(did) {
                DefKind::Struct | DefKind::Enum | DefKind::Union => {
                    let adt = tcx.adt_def(did);
                    let mut variants = vec![];
                    let discrs: Vec<(usize, u128)> = if adt.is_enum() {
                        adt.discriminants(tcx)
                            .map(|(v, d)| (v.as_usize(), d.val))
                            .collect()
                    } else {
                        vec![]
                    };
                    for (vi, v) in adt.variants().iter_enumerated() {
                        let mut fields = vec![];
                        for f in v.fields.iter() {
                            let fty = tcx.type_of(f.did).skip_binder();
                            fields.push(J::Obj(vec![
                                ("name", J::s(f.name.to_string())),
                                ("ty", cx.ty(fty)),
                                ("pub", J::Bool(f.vis.is_public())),
                            ]));
                        }
                        let dv = discrs
                            .iter()
                            .find(|(i, _)| *i == vi.as_usize())
                            .map(|(_, d)| *d);
                        variants.push(J::Obj(vec![
                            ("name", J::s(v.name.to_string())),
                            (
                                "discr",
                                match dv {
                                    Some(d) => J::Big(format!("{}", d)),
                                    None => J::Null,
                                },
                            ),
                            ("fields", J::Arr(fields)),
                        ]));
                    }
                    let kind = if adt.is_enum() {
                        "enum"
                    } else if adt.is_union() {
                        "union"
                    } else {
                        "struct"
                    };
                    adts.push((
                        path_of(tcx, did),
                        J::Obj(vec![
                            ("kind", J::s(kind)),
                            ("pub", J::Bool(tcx.visibility(did).is_public())),
                            ("repr", J::s(format!("{:?}", adt.repr().int))),
                            ("variants", J::Arr(variants)),
                        ]),
                    ));
                }
                DefKind::Const { .. } | DefKind::AssocConst { .. } => {
                    let t = tcx.type_of(did).skip_binder();
                    let mut o = vec![("ty", cx.ty(t))];
                    let env = TypingEnv::post_analysis(tcx, did);
                    let _ = env;
                    match tcx.const_eval_poly(did) {
                        Ok(v) => {
                            if let Some(s) = v.try_to_scalar_int() {
                                let size = s.size();
                                let bits = s.to_bits(size);
                                o.push(("val", J::Big(format!("{}", bits))));
                            } else {
                                // aggregate constant (e.g. Duration): print via mir::Const
                                let c = mir::Const::Val(v, t);
                                o.push((
                                    "repr",
                                    J::s(with_no_trimmed_paths!(format!("{}", c))),
                                ));
                            }
                        }
                        Err(_) => o.push(("val", J::Null)),
                    }
                    consts.push((path_of(tcx, did), J::Obj(o)));
                }
                DefKind::Static { mutability, .. } => {
                    let t = tcx.type_of(did).skip_binder();
                    statics.push(J::Obj(vec![
                        ("path", J::s(path_of(tcx, did))),
                        ("mut", J::Bool(mutability.is_mut())),
                        ("ty", cx.ty(t)),
                        ("freeze", J::Bool(t.is_freeze(tcx, TypingEnv::fully_monomorphized()))),
                    ]));
                }
                DefKind::Impl { .. } => {
                    let st = tcx.type_of(did).skip_binder();
                    let mut o = vec![("self_ty", cx.ty(st))];
                    if tcx.impl_opt_trait_ref(did).is_some() {
                        let tr = tcx.impl_trait_ref(did).skip_binder();
                        o.push(("trait", J::s(path_of(tcx, tr.def_id))));
                    } else {
                        o.push(("trait", J::Null));
                    }
                    let mut items = vec![];
                    for it in tcx.associated_items(did).in_definition_order() {
                        let mut io = vec![
                            ("name", J::s(it.name().to_string())),
                            ("def", J::s(path_of(tcx, it.def_id))),
                        ];
                        if let Some(tid) = it.trait_item_def_id() {
                            io.push(("trait_item", J::s(path_of(tcx, tid))));
                        }
                        items.push(J::Obj(io));
                    }
                    o.push(("items", J::Arr(items)));
                    o.push(("span", cx.span(tcx.def_span(did))));
                    impls.push(J::Obj(o));
                }
                DefKind::Trait => {
                    let mut items = vec![];
                    for it in tcx.associated_items(did).in_definition_order() {
                        items.push(J::Obj(vec![
                            ("name", J::s(it.name().to_string())),
                            ("def", J::s(path_of(tcx, it.def_id))),
                            ("has_default", J::Bool(it.defaultness(tcx).has_value())),
                        ]));
                    }
                    traits.push((path_of(tcx, did), J::Arr(items)));
                }
                DefKind::Fn | DefKind::AssocFn => {
                    let sig = tcx.fn_sig(did).skip_binder();
                    if sig.safety().is_unsafe() {
                        unsafe_items.push(J::s(path_of(tcx, did)));
                    }
                }
                _ => {}
            }
        }

        let mut ext: Vec<(String, J)> = cx.ext_fns.drain().collect();
        ext.sort_by(|a, b| a.0.cmp(&b.0));
        let types = std::mem::take(&mut cx.types);
        let root = J::Obj(vec![
            ("crate", J::s(crate_name.clone())),
            ("crate_type", J::s(ctype)),
            ("types", J::Arr(types)),
            ("adts", J::Map(adts)),
            ("consts", J::Map(consts)),
            ("statics", J::Arr(statics)),
            ("impls", J::Arr(impls)),
            ("traits", J::Map(traits)),
            ("unsafe_fns", J::Arr(unsafe_items)),
            ("ext_fns", J::Map(ext)),
            ("bodies", J::Map(bodies)),
        ]);
        let mut out = String::new();
        root.write(&mut out);
        let feat = std::env::var("TFTP_FACTS_TAG").unwrap_or_default();
        let fname = format!("{}/{}.{}{}.json", out_dir, crate_name, ctype, feat);
        std::fs::write(&fname, out).expect("cannot write facts");
        Compilation::Continue
    }
}

fn main() {
    let mut args: Vec<String> = std::env::args().collect();
    // RUSTC_WORKSPACE_WRAPPER: argv[1] is the path of the real rustc
    if args.len() > 1 && (args[1].ends_with("rustc") || args[1].contains("/rustc")) {
        args.remove(1);
    }
    let mut cb = Facts;
    rustc_driver::catch_with_exit_code(|| {
        rustc_driver::run_compiler(&args, &mut cb);
    });
}
